/*
 * stubs/fd_model.h — ghost descriptor table (DESIGN 2.3): which small
 * descriptors are open, of which kind, with which flags.  Creation calls
 * take the lowest free slot >= 3; close() of a descriptor that is not open
 * is recorded as a hygiene violation (double close / stray close).
 */
#ifndef VERIF_FD_MODEL_H
#define VERIF_FD_MODEL_H

#define KFD_MAX 12
enum { KFD_NONE, KFD_EPOLL, KFD_TIMERFD, KFD_EVENTFD, KFD_PIPE_R, KFD_PIPE_W, KFD_OTHER };

struct kfd {
	_Bool	open, cloexec, nonblock;
	uint8_t	kind;
};
struct kfd	k_fd[KFD_MAX];
int		k_bad_close, k_closes, k_opens;

#ifndef VERIF_ON_OPEN
#define VERIF_ON_OPEN(kind) do { } while (0)
#endif
static int k_alloc(int kind, int cloexec, int nonblock)
{
	int i;

	VERIF_ON_OPEN(kind);

	for (i = 3; i < KFD_MAX; i++) {
		if (!k_fd[i].open) {
			k_fd[i].open = 1;
			k_fd[i].kind = kind;
			k_fd[i].cloexec = !!cloexec;
			k_fd[i].nonblock = !!nonblock;
			k_opens++;
			return i;
		}
	}
	__CPROVER_assume(0);	/* table exhausted: outside the unit's scope */
	return -1;
}

static int k_open_count(void)
{
	int i, n = 0;

	for (i = 0; i < KFD_MAX; i++)
		if (k_fd[i].open)
			n++;
	return n;
}

#ifndef VERIF_ON_CLOSE
#define VERIF_ON_CLOSE(fd) do { } while (0)
#endif
int STUB(close)(int fd)
{
	VERIF_ON_CLOSE(fd);
	k_closes++;
	if (fd < 0 || fd >= KFD_MAX || !k_fd[fd].open) {
		k_bad_close++;
		verif_errno = EBADF;
		return -1;
	}
	k_fd[fd].open = 0;
	return 0;
}

#endif
