/*
 * stubs/lock.h — ghost ownership model of pthread mutexes (DESIGN 2.3).
 * One ghost flag per lock object is enough for the units that use it: each
 * unit involves a single mutex (`verif_lock_obj` is recorded and checked).
 *   lock   : asserts the lock is not already held by this thread, marks it
 *            held, counts the acquisition and runs VERIF_ON_LOCK(m), which a
 *            unit may define to re-choose the state protected by the lock
 *            (other threads may have changed it until now);
 *   unlock : asserts it is held, clears the flag, runs VERIF_ON_UNLOCK(m).
 */
#ifndef VERIF_STUBS_LOCK_H
#define VERIF_STUBS_LOCK_H

int g_lock_held;
int g_lock_acq;
void *g_lock_obj;

#ifndef VERIF_ON_LOCK
#define VERIF_ON_LOCK(m) do { } while (0)
#endif
#ifndef VERIF_ON_UNLOCK
#define VERIF_ON_UNLOCK(m) do { } while (0)
#endif

int STUB(pthread_mutex_init)(pthread_mutex_t *m, const pthread_mutexattr_t *a) { return 0; }
int STUB(pthread_mutex_destroy)(pthread_mutex_t *m) { return 0; }

int STUB(pthread_mutex_lock)(pthread_mutex_t *m)
{
	__CPROVER_assert(!g_lock_held, "[C08,C12] lock is not acquired twice by the same thread");
	__CPROVER_assert(g_lock_obj == NULL || g_lock_obj == (void *)m, "lock object is the expected one");
	g_lock_held = 1;
	if (g_lock_acq < 1000)
		g_lock_acq++;
	VERIF_ON_LOCK(m);
	return 0;
}

int STUB(pthread_mutex_unlock)(pthread_mutex_t *m)
{
	__CPROVER_assert(g_lock_held, "[C08,C12] unlock only of a held lock");
	__CPROVER_assert(g_lock_obj == NULL || g_lock_obj == (void *)m, "lock object is the expected one");
	VERIF_ON_UNLOCK(m);
	g_lock_held = 0;
	return 0;
}

#endif
