/*
 * stubs/epoll_model.h — ghost kernel for epoll (DESIGN 2.3, A.4).
 * NK tracked descriptors; slot i stands for descriptor number k_fdnum[i].
 * epoll_ctl fails with EEXIST/ENOENT exactly when the kernel would, and with
 * EINTR from a budget (k_eintr_budget consecutive interruptions at most).
 */
#ifndef VERIF_EPOLL_MODEL_H
#define VERIF_EPOLL_MODEL_H

#ifndef NK
#define NK 3
#endif

struct k_entry {
	_Bool		present;
	uint32_t	events;
	void		*ptr;
};

int		k_epfd;			/* the epoll descriptor of this thread */
int		k_fdnum[NK];
struct k_entry	k_ep[NK];
int		k_eintr_budget;
int		k_ctl_calls;
int		k_ctl_bad;		/* protocol violations seen (EEXIST / ENOENT / unknown fd) */
int		k_ctl_refuse;		/* non-zero: the kernel refuses every control call with this errno (ENOSPC, ENOMEM, EPERM ...) */

static int k_slot(int fd)
{
	int i;

	for (i = 0; i < NK; i++)
		if (k_fdnum[i] == fd)
			return i;
	return -1;
}

int STUB(epoll_ctl)(int epfd, int op, int fd, struct epoll_event *ev)
{
	int s;

	__CPROVER_assert(epfd == k_epfd, "epoll_ctl on this thread's epoll descriptor");
	if (k_ctl_calls < 1000)
		k_ctl_calls++;
	if (k_eintr_budget > 0) {
		k_eintr_budget--;
		verif_errno = EINTR;
		return -1;
	}
	if (k_ctl_refuse) {
		verif_errno = k_ctl_refuse;
		return -1;
	}
	s = k_slot(fd);
	if (s < 0) {
		k_ctl_bad++;
		verif_errno = EBADF;
		return -1;
	}
	if (op == EPOLL_CTL_ADD) {
		if (k_ep[s].present) {
			k_ctl_bad++;
			verif_errno = EEXIST;
			return -1;
		}
		k_ep[s].present = 1;
		k_ep[s].events = ev->events;
		k_ep[s].ptr = ev->data.ptr;
		return 0;
	}
	if (op == EPOLL_CTL_MOD) {
		if (!k_ep[s].present) {
			k_ctl_bad++;
			verif_errno = ENOENT;
			return -1;
		}
		k_ep[s].events = ev->events;
		k_ep[s].ptr = ev->data.ptr;
		return 0;
	}
	if (op == EPOLL_CTL_DEL) {
		if (!k_ep[s].present) {
			k_ctl_bad++;
			verif_errno = ENOENT;
			return -1;
		}
		k_ep[s].present = 0;
		return 0;
	}
	k_ctl_bad++;
	verif_errno = EINVAL;
	return -1;
}

#endif
