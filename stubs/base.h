/*
 * stubs/base.h — trusted environment shared by all units (DESIGN 2.3):
 *   errno as a variable, iv_fatal as an unreachable point, TLS lookup.
 * Include AFTER the real source file.
 */
#ifndef VERIF_STUBS_BASE_H
#define VERIF_STUBS_BASE_H

#include "verif.h"

/* ---- errno ---------------------------------------------------------- */
#ifndef VERIF_NATIVE
int verif_errno;
int *__errno_location(void) { return &verif_errno; }
#else
#define verif_errno (*__errno_location())
#endif

/* ---- iv_fatal: every use reports API misuse or an impossible kernel
 * answer, so under a contract's precondition it must be unreachable. ---- */
int verif_fatal_reached;
void iv_fatal(const char *fmt, ...)
{
	verif_fatal_reached = 1;
#ifdef VERIF_NATIVE
	fprintf(stderr, "OBLIGATION FAILED: iv_fatal unreachable (%s)\n", fmt);
	exit(3);
#else
	__CPROVER_assert(0, "iv_fatal unreachable");
	__CPROVER_assume(0);
#endif
	while (1) ;
}

/* ---- globals defined in translation units that are not part of this unit
 * (CBMC treats an undefined extern as an unconstrained object; the native
 * replay needs a definition) ---------------------------------------- */
#ifndef VERIF_NO_TLS
#ifndef VERIF_HAVE_IV_MAIN
pthr_key_t iv_state_key;
#endif

/* ---- thread-local state: this thread's iv_state is verif_st ---------- */
struct iv_state *verif_st;
void *STUB(pthread_getspecific)(pthread_key_t k) { return verif_st; }
int STUB(pthread_setspecific)(pthread_key_t k, const void *v)
{
	verif_st = (struct iv_state *)v;
	return 0;
}
#endif /* VERIF_NO_TLS */

#endif
