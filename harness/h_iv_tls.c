/*
 * Units for src/iv_tls.c (C18): per-module thread state areas inside the
 * state block -- offsets, disjointness, init/deinit hook dispatch.  Mode S.
 */
#include "iv_tls.c"
#include "stubs/base.h"

struct verif_in_t {
	int	size1, size2;
	_Bool	inited;
	_Bool	has_init1, has_deinit1, has_init2, has_deinit2;
	_Bool	st_null;
} verif_in;

static struct iv_tls_user v_u1, v_u2;
static unsigned char v_block[4096] __attribute__((aligned(16)));
static int g_i1, g_i2, g_d1, g_d2, g_order, g_i1_at, g_i2_at, g_d1_at, g_d2_at;
static void *g_a1, *g_a2;

static void init1(void *p) { g_i1++; g_a1 = p; g_i1_at = ++g_order; }
static void init2(void *p) { g_i2++; g_a2 = p; g_i2_at = ++g_order; }
static void deinit1(void *p) { g_d1++; __CPROVER_assert(p == g_a1, "[C18] a module's tear-down hook gets the same area as its init hook"); g_d1_at = ++g_order; }
static void deinit2(void *p) { g_d2++; __CPROVER_assert(p == g_a2, "[C18] a module's tear-down hook gets the same area as its init hook"); g_d2_at = ++g_order; }

static void v_build(void)
{
	VERIF_IN_LOAD();
	__CPROVER_assume(verif_in.size1 >= 0 && verif_in.size1 <= 1000 && verif_in.size2 >= 0 && verif_in.size2 <= 1000);
	inited = 0;
	last_offset = (sizeof(struct iv_state) + 15) & ~15;
	INIT_IV_LIST_HEAD(&iv_tls_users);
	v_u1.sizeof_state = verif_in.size1; v_u2.sizeof_state = verif_in.size2;
	v_u1.init_thread = verif_in.has_init1 ? init1 : NULL; v_u1.deinit_thread = verif_in.has_deinit1 ? deinit1 : NULL;
	v_u2.init_thread = verif_in.has_init2 ? init2 : NULL; v_u2.deinit_thread = verif_in.has_deinit2 ? deinit2 : NULL;
}

void h_tls_register(void)
{
	int total;

	v_build();
	iv_tls_user_register(&v_u1);
	iv_tls_user_register(&v_u2);
	total = iv_tls_total_state_size();
	__CPROVER_assert(v_u1.state_offset >= (int)sizeof(struct iv_state) && v_u1.state_offset % 16 == 0 && v_u2.state_offset % 16 == 0, "[C18] module areas start after the core state and are 16-byte aligned");
	__CPROVER_assert(v_u2.state_offset >= v_u1.state_offset + verif_in.size1, "[C18] module areas do not overlap");
	__CPROVER_assert(total >= v_u2.state_offset + verif_in.size2 && total % 16 == 0, "[C18] the state block is large enough for every registered module");
	__CPROVER_assert(v_u1.state_offset != 0 && v_u2.state_offset != 0, "[C18] a registered module never has offset 0 (the marker for unregistered)");
	CANARY();
}

void h_tls_ptr(void)
{
	void *p;

	v_build();
	iv_tls_user_register(&v_u1);
	p = __iv_tls_user_ptr(verif_in.st_null ? NULL : (struct iv_state *)v_block, &v_u1);
	__CPROVER_assert(verif_in.st_null ? p == NULL : p == (void *)(v_block + v_u1.state_offset), "[C18] a module's area is the block plus its offset; NULL in a thread without a loop state");
	CANARY();
}

void h_tls_hooks(void)
{
	v_build();
	__CPROVER_assume(sizeof(struct iv_state) + 2100 <= sizeof(v_block));
	iv_tls_user_register(&v_u1);
	iv_tls_user_register(&v_u2);
	iv_tls_thread_init((struct iv_state *)v_block);
	__CPROVER_assert(inited == 1, "[C18] registration is closed once a thread has been initialised");
	__CPROVER_assert(g_i1 == (verif_in.has_init1 ? 1 : 0) && g_i2 == (verif_in.has_init2 ? 1 : 0), "[C18] every module's init hook runs once per thread");
	__CPROVER_assert(IMPLIES(verif_in.has_init1, g_a1 == (void *)(v_block + v_u1.state_offset)) && IMPLIES(verif_in.has_init2, g_a2 == (void *)(v_block + v_u2.state_offset)), "[C18] on its own area");
	if (!verif_in.has_init1) g_a1 = v_block + v_u1.state_offset;
	if (!verif_in.has_init2) g_a2 = v_block + v_u2.state_offset;
	iv_tls_thread_deinit((struct iv_state *)v_block);
	__CPROVER_assert(g_d1 == (verif_in.has_deinit1 ? 1 : 0) && g_d2 == (verif_in.has_deinit2 ? 1 : 0), "[C18] every module's tear-down hook runs exactly once when the thread's loop is deinitialised");
	CANARY();
}
