/*
 * Units for src/iv_thread_posix.c (C13, C18).  Mode S; pthread_* and the
 * iv_event layer are ghost stubs; malloc/free/strdup are counted via macros.
 */
#include <stdlib.h>
#include <string.h>
void *verif_malloc(size_t n);
void verif_free(void *p);
char *verif_strdup(const char *s);
#define malloc(n)	verif_malloc(n)
#define free(p)		verif_free(p)
#undef strdup
#define strdup(s)	verif_strdup(s)
#include "iv_thread_posix.c"
#undef malloc
#undef free
#undef strdup
#include "stubs/base.h"

struct verif_in_t {
	int	create_ret;
	_Bool	malloc_fail, strdup_fail;
	uint8_t	nchildren;
} verif_in;

static struct iv_state		v_state;
static struct iv_thread_thr_info v_tinfo;
static int g_allocs, g_frees, g_ev_reg, g_ev_unreg, g_posts, g_joins, g_detaches, g_creates, g_once, g_setspec, g_routine_calls;
static struct iv_event *g_post_arg, *g_reg_arg, *g_unreg_arg;
static void *g_create_arg; static void *(*g_create_fn)(void *);
static void *g_routine_arg;

void *verif_malloc(size_t n)
{
	void *p;
	if (verif_in.malloc_fail)
		return NULL;
	p = malloc(n);
	__CPROVER_assume(p != NULL);
	g_allocs++;
	return p;
}
void verif_free(void *p) { if (p != NULL) g_frees++; free(p); }
char *verif_strdup(const char *s)
{
	char *p;
	if (verif_in.strdup_fail)
		return NULL;
	p = malloc(8);
	__CPROVER_assume(p != NULL);
	p[0] = 0;
	g_allocs++;
	return p;
}

void *STUB(iv_tls_user_ptr)(const struct iv_tls_user *itu) { return &v_tinfo; }
void STUB(iv_tls_user_register)(struct iv_tls_user *itu) { }
int iv_event_register(struct iv_event *e) { g_ev_reg++; g_reg_arg = e; return 0; }
void iv_event_unregister(struct iv_event *e) { g_ev_unreg++; g_unreg_arg = e; }
void iv_event_post(struct iv_event *e) { g_posts++; g_post_arg = e; }
unsigned long iv_get_thread_id(void) { return 4242; }
int STUB(pthread_once)(pthread_once_t *o, void (*fn)(void)) { if (!g_once) { g_once = 1; fn(); } return 0; }
int STUB(pthread_key_create)(pthread_key_t *k, void (*d)(void *))
{
	__CPROVER_assert(d == iv_thread_destructor, "[C13] the per-thread key's destructor is the exit notification: it runs however the thread ends (return or pthread_exit)");
	return 0;
}
int STUB(pthread_create)(pthread_t *t, const pthread_attr_t *a, void *(*fn)(void *), void *arg)
{
	g_creates++; g_create_fn = fn; g_create_arg = arg;
	if (verif_in.create_ret == 0)
		*t = 77;
	return verif_in.create_ret;
}
int STUB(pthread_join)(pthread_t t, void **r) { __CPROVER_assert(t == 77, "[C13] the created thread is the one joined"); g_joins++; return 0; }
int STUB(pthread_detach)(pthread_t t) { g_detaches++; return 0; }
int STUB(fprintf)(FILE *f, const char *fmt, ...) { return 0; }

static void v_routine(void *arg) { g_routine_calls++; g_routine_arg = arg; }

static void v_build(void)
{
	VERIF_IN_LOAD();
	verif_st = &v_state;
	INIT_IV_LIST_HEAD(&v_tinfo.child_threads);
	iv_thread_debug = 0;
	__CPROVER_assume(verif_in.create_ret >= 0 && verif_in.create_ret < 4096);
}

void h_thread_create(void)
{
	int r;

	v_build();
	r = iv_thread_create("worker", v_routine, &v_state);
	if (verif_in.malloc_fail) {
		__CPROVER_assert(r == -1 && g_ev_reg == 0 && g_creates == 0 && g_allocs == g_frees, "[C18] out of memory: nothing registered, nothing leaked");
	} else if (verif_in.create_ret != 0) {
		__CPROVER_assert(r == -1 && g_ev_reg == 1 && g_ev_unreg == 1 && g_unreg_arg == g_reg_arg, "[C13] when the thread cannot be created the exit notification is withdrawn: the creator's loop is not held");
		__CPROVER_assert(g_allocs == g_frees && iv_list_empty(&v_tinfo.child_threads), "[C18] and every allocation is undone");
	} else {
		struct iv_thread *thr = iv_list_entry(v_tinfo.child_threads.prev, struct iv_thread, list);

		__CPROVER_assert(r == 0 && g_creates == 1 && g_create_fn == iv_thread_handler && g_create_arg == (void *)thr, "[C13] the new thread starts in the library's trampoline with its record");
		__CPROVER_assert(g_ev_reg == 1 && g_reg_arg == &thr->dead && g_ev_unreg == 0 && thr->dead.handler == iv_thread_died && thr->dead.cookie == thr, "[C13] an event registered in the creator keeps the creator's iv_main from returning until the thread has exited and been joined");
		__CPROVER_assert(thr->start_routine == v_routine && thr->arg == (void *)&v_state && thr->thread_id == 77, "[C13] record filled in");
		__CPROVER_assert(v_tinfo.child_threads.next == &thr->list, "[C13] the thread is on the creator's list of children");
	}
	CANARY();
}

static struct iv_thread *mk_thr(void)
{
	struct iv_thread *thr = malloc(sizeof(*thr));
	__CPROVER_assume(thr != NULL);
	thr->thread_id = 77;
	thr->name = malloc(8);
	__CPROVER_assume(thr->name != NULL);
	thr->start_routine = v_routine;
	thr->arg = &v_state;
	iv_list_add_tail(&thr->list, &v_tinfo.child_threads);
	return thr;
}

void h_thread_died(void)
{
	struct iv_thread *thr;

	v_build();
	thr = mk_thr();
	iv_thread_died(thr);
	__CPROVER_assert(g_joins == 1, "[C13] the exited thread is joined");
	__CPROVER_assert(iv_list_empty(&v_tinfo.child_threads) && g_ev_unreg == 1, "[C13] it leaves the list of children and its reference on the creator's loop is dropped");
	__CPROVER_assert(g_frees == 2, "[C18] name and record are freed");
	CANARY();
}

void h_thread_exit_paths(void)
{
	struct iv_thread *thr;
	void *r;

	v_build();
	thr = mk_thr();
	r = iv_thread_handler(thr);
	__CPROVER_assert(r == NULL && g_routine_calls == 1 && g_routine_arg == (void *)&v_state, "[C13] the user routine runs once with its argument");
	__CPROVER_assert(verif_st == (struct iv_state *)thr, "[C13] the record is stored under the per-thread key before the routine runs, so its destructor fires on every kind of thread exit");
	__CPROVER_assert(thr->tid == 4242, "[C13] thread id recorded");
	iv_thread_destructor(thr);
	__CPROVER_assert(g_posts == 1 && g_post_arg == &thr->dead, "[C13] thread exit posts the exit notification to the creator");
	CANARY();
}

void h_thread_tls_deinit(void)
{
	v_build();
	__CPROVER_assume(verif_in.nchildren <= 2);
	if (verif_in.nchildren >= 1) mk_thr();
	if (verif_in.nchildren >= 2) mk_thr();
	iv_thread_tls_deinit_thread(&v_tinfo);
	__CPROVER_assert(g_detaches == verif_in.nchildren, "[C13,C18] a creator that tears its loop down detaches every child still running, so none is left unjoinable");
	CANARY();
}
