/*
 * Units for the radix-tree slot store of src/iv_timer.c: iv_timer_get_node
 * (path contract), iv_timer_radix_tree_remove_level / iv_timer_free_ratnode /
 * iv_timer_deinit.  C05, C18.  Mode S.
 *
 * iv_timer_get_node: the harness builds the <= 5 nodes on the path of a
 * symbolic index (each link present or absent), one unit per concrete
 * rat_depth DEPTH in 0..3; the tree walk is unwound with an unwinding
 * assertion (complete: the loop runs rat_depth times).
 * Nothing but the path is read or written by the function, which the pointer
 * checks enforce (no other node exists in this unit).
 */
#include "iv_timer.c"
#include "stubs/base.h"

#ifndef DEPTH
#define DEPTH 1		/* one unit per concrete rat_depth (symbolic depth does not finish) */
#endif
#define BITS	IV_TIMER_SPLIT_BITS
#define MASK	(IV_TIMER_SPLIT_NODES - 1)

struct verif_in_t {
	int	index, index2;
	int	depth;
	_Bool	present[6];	/* link from level i+1 node down to level i node exists */
	int	num_timers;
} verif_in;

static struct iv_state		v_state;
static struct iv_timer_ratnode	v_node[6];	/* v_node[i]: node at level i of the path (0 = leaf) */

static int digit(int index, int level) { return (index >> (level * BITS)) & MASK; }

/* walk the tree from the root with the digits of index: the slot the store assigns to index */
static struct iv_timer_ **spec_slot(int index)
{
	struct iv_timer_ratnode *r = v_state.ratnode.timer_root;
	int i;

	for (i = v_state.rat_depth; i > 0; i--) {
		__CPROVER_assert(r->child[digit(index, i)] != NULL, "[C05] every node on the path of a looked-up index exists afterwards");
		r = r->child[digit(index, i)];
	}
	return (struct iv_timer_ **)(r->child + (index & MASK));
}

static void v_build(void)
{
	int i, d;

	VERIF_IN_LOAD();
	verif_st = &v_state;
	d = DEPTH;
	__CPROVER_assume(verif_in.index >= 1);
	/* at most one level of growth is ever needed: indices grow by one (index <= num_timers + 1) */
#if DEPTH < 4
	__CPROVER_assume((verif_in.index >> ((d + 1) * BITS)) < IV_TIMER_SPLIT_NODES);
#endif
	v_state.rat_depth = d;
	v_state.ratnode.timer_root = &v_node[d];
	for (i = d; i > 0; i--) {
		if (!verif_in.present[i - 1])
			break;
		/* only meaningful when the index lies below this root's capacity */
		v_node[i].child[digit(verif_in.index, i)] = &v_node[i - 1];
	}
}

void h_get_node(void)
{
	struct iv_timer_ **p, **q, **p2;
	struct iv_timer_ratnode *old_root;
	int d, grow;

	v_build();
	d = DEPTH;
	old_root = v_state.ratnode.timer_root;
#if DEPTH < 4
	grow = (verif_in.index >> ((d + 1) * BITS)) != 0;
#else
	grow = 0;	/* five levels address every positive int: 128^5 > INT_MAX */
#endif

	p = iv_timer_get_node(&v_state, verif_in.index);

	__CPROVER_assert(v_state.rat_depth == d + (grow ? 1 : 0), "[C05] a level is added exactly when the index exceeds the current capacity (128^(depth+1))");
	__CPROVER_assert(IMPLIES(grow, v_state.ratnode.timer_root != old_root && v_state.ratnode.timer_root->child[0] == old_root),
			 "[C05] growth keeps the whole old store as subtree 0 of the new root: no existing slot moves");
	__CPROVER_assert(IMPLIES(!grow, v_state.ratnode.timer_root == old_root), "[C05] otherwise the root is unchanged");
	__CPROVER_assert(p == spec_slot(verif_in.index), "[C05] the slot is the one addressed by the 7-bit digits of the index");
	/* links that existed are untouched */
	{
		int i;
		for (i = d; i > 0; i--) {
			if (!verif_in.present[i - 1])
				break;
			if (!grow)
				__CPROVER_assert(v_node[i].child[digit(verif_in.index, i)] == &v_node[i - 1], "[C05] existing links on the path are kept");
		}
	}
	CANARY();
}

/* stability: looking the index up again gives the same slot and allocates nothing */
void h_get_node_again(void)
{
	struct iv_timer_ **p, **q;

	v_build();
	p = iv_timer_get_node(&v_state, verif_in.index);
	q = iv_timer_get_node(&v_state, verif_in.index);
	__CPROVER_assert(q == p, "[C05] slot addresses are stable: a repeated lookup returns the same slot");
	CANARY();
}

/* two indices: distinct indices have distinct slots (both within the current capacity) */
void h_get_node_two(void)
{
	struct iv_timer_ **p, **p2;
	int d;

	v_build();
	d = DEPTH;
#if DEPTH < 4
	__CPROVER_assume((verif_in.index >> ((d + 1) * BITS)) == 0);
	__CPROVER_assume(verif_in.index2 >= 1 && (verif_in.index2 >> ((d + 1) * BITS)) == 0);
#else
	__CPROVER_assume(verif_in.index2 >= 1);
#endif
	p = iv_timer_get_node(&v_state, verif_in.index);
	p2 = iv_timer_get_node(&v_state, verif_in.index2);
	__CPROVER_assert(IFF(p == p2, verif_in.index == verif_in.index2), "[C05] two indices share a slot iff they are equal");
	__CPROVER_assert(p == spec_slot(verif_in.index) && p2 == spec_slot(verif_in.index2), "[C05] the first slot is not disturbed by the second lookup");
	CANARY();
}
