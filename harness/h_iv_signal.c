/*
 * Units for src/iv_signal.c (C10, C01, C18).  Mode S.
 * Ghost environment: signal mask, spin lock, sigaction dispositions, pid,
 * raw-event layer (counters).  iv_avl_tree_insert/delete are redirected
 * (--replace-calls) to a plain BST insert/delete ordered by the real
 * iv_signal_compare; iv_avl_tree_next is the real one (iv_avl.c is part of
 * the unit).  Interests live in one array so that the address comparison of
 * iv_signal_compare is defined.
 */
#include "iv_signal.c"
#include "iv_avl.c"
#include "stubs/base.h"

#ifndef NI
#define NI 3
#endif

struct verif_in_t {
	int	signum[NI];
	uint8_t	flags[NI];
	uint8_t	active[NI];
	_Bool	in_tree[NI];
	int	count;			/* total_num_interests[signum] before the call */
	int	pid, owner_pid;
	_Bool	tinfo_present;
	int	woke_thr, woke_proc;
	int	sig;
} verif_in;

static struct iv_state		v_state;
static struct iv_signal		v_is[NI];
static struct iv_signal_thr_info v_tinfo;
static unsigned long		g_mask;		/* ghost signal mask (word 0) */
static int	g_lock_held, g_lock_acq, g_lock_with_unblocked, g_in_postfork;
static int	g_raw_reg, g_raw_unreg, g_raw_posts, g_posted[NI];
static int	g_sigactions, g_sa_sig, g_sa_flags; static void (*g_sa_handler)(int); static unsigned long g_sa_mask;
static int	g_ins, g_del; static struct iv_avl_tree *g_ins_tree, *g_del_tree; static struct iv_avl_node *g_ins_node, *g_del_node;
static int	g_wake_calls, g_wake_thr, g_wake_proc, g_wake_sig, g_wake_proc_locked;
static int	g_handler_calls, g_raw_unreg_locked;

void *STUB(iv_tls_user_ptr)(const struct iv_tls_user *itu) { return verif_in.tinfo_present ? &v_tinfo : NULL; }
void STUB(iv_tls_user_register)(struct iv_tls_user *itu) { }
int STUB(pthread_atfork)(void (*a)(void), void (*b)(void), void (*c)(void)) { return 0; }
pid_t STUB(getpid)(void) { return verif_in.pid; }
int STUB(sigfillset)(sigset_t *s) { s->__val[0] = ~0UL; return 0; }
int STUB(sigemptyset)(sigset_t *s) { s->__val[0] = 0; return 0; }
int STUB(pthread_sigmask)(int how, const sigset_t *set, sigset_t *old)
{
	if (old != NULL)
		old->__val[0] = g_mask;
	if (set != NULL) {
		if (how == SIG_BLOCK)
			g_mask |= set->__val[0];
		else if (how == SIG_SETMASK)
			g_mask = set->__val[0];
	}
	/* the mask must not be opened while the lock is still held: a signal delivered then makes the
	 * handler spin on the lock its own thread holds */
	if (g_lock_held && g_mask != ~0UL)
		g_lock_with_unblocked++;
	return 0;
}
int STUB(pthread_spin_init)(pthread_spinlock_t *l, int s) { return 0; }
int STUB(pthread_spin_lock)(pthread_spinlock_t *l)
{
	__CPROVER_assert(!g_lock_held, "[C10,C14] the signal lock is not taken twice");
	if (g_mask != ~0UL)
		g_lock_with_unblocked++;
	g_lock_held = 1; g_lock_acq++;
	return 0;
}
int STUB(pthread_spin_unlock)(pthread_spinlock_t *l)
{
	__CPROVER_assert(g_lock_held, "[C10,C14] unlock of the held signal lock");
	g_lock_held = 0;
	return 0;
}
int STUB(pthread_spin_trylock)(pthread_spinlock_t *l) { return 0; }
int STUB(sigaction)(int sig, const struct sigaction *sa, struct sigaction *old)
{
	g_sigactions++; g_sa_sig = sig; g_sa_handler = sa->sa_handler; g_sa_flags = sa->sa_flags; g_sa_mask = sa->sa_mask.__val[0];
	if (!g_in_postfork)
		__CPROVER_assert(g_lock_held, "[C10,C14] the disposition of a signal is changed in the same critical section that counts its interests: a registration made by another thread in between would see a non-zero count and install nothing");
	return 0;
}
int iv_event_raw_register(struct iv_event_raw *this) { g_raw_reg++; return 0; }
void iv_event_raw_unregister(struct iv_event_raw *this)
{
	g_raw_unreg++;
	if (g_lock_held) g_raw_unreg_locked++;
	__CPROVER_assert(g_del >= 1, "[C10,C18] the interest has left its set (under the signal lock) before its wake-up descriptor is closed: a signal delivered in between must not post to a closed, possibly re-used, descriptor");
}
void iv_event_raw_post(const struct iv_event_raw *this)
{
	int i;
	g_raw_posts++;
	for (i = 0; i < NI; i++)
		if (this == &v_is[i].ev)
			g_posted[i]++;
}

/* BST stand-in for the AVL set (ordered by tree->compare) */
int bst_insert(struct iv_avl_tree *tree, struct iv_avl_node *an)
{
	struct iv_avl_node *p = NULL, **pp = &tree->root;
	int i;

	g_ins++; g_ins_tree = tree; g_ins_node = an;
	for (i = 0; i < NI + 1; i++) {
		int c;
		if (*pp == NULL)
			break;
		p = *pp;
		c = tree->compare(an, p);
		if (c == 0)
			return -1;
		pp = (c < 0) ? &p->left : &p->right;
	}
	an->left = NULL; an->right = NULL; an->parent = p; an->height = 1;
	*pp = an;
	return 0;
}
void bst_delete(struct iv_avl_tree *tree, struct iv_avl_node *an)
{
	g_del++; g_del_tree = tree; g_del_node = an;
}
/* contract stub of __iv_signal_do_wake for the units that only need its verdict */
static int g_wake_before_delete;
int s_do_wake(struct iv_avl_tree *tree, int signum)
{
	g_wake_calls++; g_wake_sig = signum;
	if (g_del == 0)
		g_wake_before_delete++;
	if (tree == &v_tinfo.thr_sigs) { g_wake_thr++; return verif_in.woke_thr; }
	if (tree == &process_sigs) { g_wake_proc++; if (g_lock_held) g_wake_proc_locked++; return verif_in.woke_proc; }
	__CPROVER_assert(0, "[C10] wake walk on one of the two interest sets");
	return 0;
}

static void mgc_sig(void *cookie)
{
	struct iv_signal *is = cookie;

	g_handler_calls++;
	__CPROVER_assert(is->active == 0, "[C10] the pending flag is cleared before the user handler runs, so a delivery during the handler posts again");
	__CPROVER_assert(!g_lock_held, "[C10] the user handler runs without the signal lock");
	__CPROVER_assert(g_mask == 0x5a5aUL, "[C10] the caller's signal mask is restored before the user handler runs");
}

static void v_build(void)
{
	int i;

	VERIF_IN_LOAD();
	verif_st = &v_state;
	g_mask = 0x5a5aUL;
	process_sigs.compare = iv_signal_compare; process_sigs.root = NULL;
	v_tinfo.thr_sigs.compare = iv_signal_compare; v_tinfo.thr_sigs.root = NULL;
	for (i = 0; i < NI; i++) {
		v_is[i].signum = verif_in.signum[i];
		__CPROVER_assume(verif_in.flags[i] <= 3);
		v_is[i].flags = verif_in.flags[i];
		v_is[i].active = verif_in.active[i];
		v_is[i].cookie = &v_is[i];
		v_is[i].handler = mgc_sig;
	}
	__CPROVER_assume(verif_in.pid > 0 && verif_in.owner_pid >= 0);
	sig_owner_pid = verif_in.owner_pid;
}

/* ---- ordering ---------------------------------------------------------- */
void h_compare(void)
{
	const struct iv_avl_node *a, *b, *c;

	v_build();
	a = &v_is[0].an; b = &v_is[1].an; c = &v_is[2].an;
	__CPROVER_assert(iv_signal_compare(a, a) == 0, "[C10] an interest equals itself");
	__CPROVER_assert(iv_signal_compare(a, b) != 0 && iv_signal_compare(a, b) == -iv_signal_compare(b, a), "[C10] the order is antisymmetric; distinct interests never compare equal");
	__CPROVER_assert(IMPLIES(iv_signal_compare(a, b) < 0 && iv_signal_compare(b, c) < 0, iv_signal_compare(a, c) < 0), "[C10] the order is transitive");
	__CPROVER_assert(IMPLIES(v_is[0].signum < v_is[1].signum, iv_signal_compare(a, b) < 0), "[C10] ordered by signal number first");
	__CPROVER_assert(IMPLIES(v_is[0].signum == v_is[1].signum && (v_is[0].flags & IV_SIGNAL_FLAG_EXCLUSIVE) && !(v_is[1].flags & IV_SIGNAL_FLAG_EXCLUSIVE), iv_signal_compare(a, b) < 0), "[C10] within a signal, exclusive interests come first");
	CANARY();
}

/* ---- iv_signal_event ---------------------------------------------------- */
void h_event(void)
{
	v_build();
	iv_signal_event(&v_is[0]);
	__CPROVER_assert(g_handler_calls == 1, "[C10] the user handler runs once per wake-up event");
	__CPROVER_assert(g_mask == 0x5a5aUL && !g_lock_held, "[C10] mask and lock are balanced");
	__CPROVER_assert(g_lock_acq == ((v_is[0].flags & IV_SIGNAL_FLAG_THIS_THREAD) ? 0 : 1), "[C10,C14] a process-wide interest's flag is cleared under the signal lock, a this-thread one without it");
	__CPROVER_assert(g_lock_with_unblocked == 0, "[C10] the lock is only held with all signals blocked, from before it is taken until after it is released (the signal handler takes the same lock)");
	CANARY();
}

/* ---- register ----------------------------------------------------------- */
void h_register(void)
{
	int r, sn, oldcount = 0;

	v_build();
	sn = v_is[0].signum;
	if (sn >= 0 && sn < _NSIG) {
		__CPROVER_assume(verif_in.count >= 0 && verif_in.count < INT_MAX);
		total_num_interests[sn] = oldcount = verif_in.count;
	}
	__CPROVER_assume(verif_in.tinfo_present);
	r = iv_signal_register(&v_is[0]);
	if (sn < 0 || sn >= _NSIG) {
		__CPROVER_assert(r == -1 && g_raw_reg == 0 && g_sigactions == 0 && g_ins == 0 && g_lock_acq == 0, "[C10] a signal number out of range is refused without side effects");
	} else {
		__CPROVER_assert(r == 0, "[C10] registration succeeds");
		__CPROVER_assert(sig_owner_pid == verif_in.pid, "[C10,C11] the registering process owns the interests (a forked child starts afresh and then owns its own: its handler does not discard the signals it registered for, SIGCHLD of iv_wait included)");
		__CPROVER_assert(g_raw_reg == 1 && v_is[0].ev.cookie == &v_is[0] && v_is[0].ev.handler == iv_signal_event, "[C10] wake-ups travel through the interest's own raw event");
		__CPROVER_assert(v_is[0].active == 0, "[C10] no delivery is pending initially");
		__CPROVER_assert(total_num_interests[sn] == ((verif_in.owner_pid != 0 && verif_in.owner_pid != verif_in.pid) ? 1 : oldcount + 1), "[C10] interests are counted per signal");
		__CPROVER_assert(IMPLIES(verif_in.owner_pid == 0 || verif_in.owner_pid == verif_in.pid,
				 IFF(g_sigactions == 1, oldcount == 0)), "[C10] the process signal handler is installed with the first interest for that signal only");
		__CPROVER_assert(IMPLIES(g_sigactions >= 1 && g_sa_sig == sn && g_sa_handler != SIG_DFL,
				 g_sa_handler == iv_signal_handler && g_sa_flags == SA_RESTART && g_sa_mask == ~0UL), "[C10] installed with all signals blocked during the handler and SA_RESTART");
		__CPROVER_assert(g_ins == 1 && g_ins_node == &v_is[0].an &&
				 g_ins_tree == ((v_is[0].flags & IV_SIGNAL_FLAG_THIS_THREAD) ? &v_tinfo.thr_sigs : &process_sigs), "[C10] a this-thread interest joins the thread's set, any other the process-wide set");
		__CPROVER_assert(!g_lock_held && g_lock_acq == 1 && g_mask == 0x5a5aUL && g_lock_with_unblocked == 0, "[C10,C14] done under the signal lock with signals blocked; both restored");
	}
	CANARY();
}

/* ---- unregister ---------------------------------------------------------- */
void h_unregister(void)
{
	int sn, oldcount;

	v_build();
	sn = v_is[0].signum;
	__CPROVER_assume(sn >= 0 && sn < _NSIG && verif_in.count >= 1);
	__CPROVER_assume(verif_in.tinfo_present);
	total_num_interests[sn] = oldcount = verif_in.count;
	iv_signal_unregister(&v_is[0]);
	__CPROVER_assert(g_del == 1 && g_del_node == &v_is[0].an &&
			 g_del_tree == ((v_is[0].flags & IV_SIGNAL_FLAG_THIS_THREAD) ? &v_tinfo.thr_sigs : &process_sigs), "[C10,C01] the interest leaves the set it was in");
	__CPROVER_assert(total_num_interests[sn] == oldcount - 1, "[C10] counted down");
	__CPROVER_assert(IFF(g_sigactions == 1, oldcount == 1) && IMPLIES(g_sigactions == 1, g_sa_sig == sn && g_sa_handler == SIG_DFL), "[C10] the default disposition is restored exactly when the last interest for the signal goes away");
	__CPROVER_assert(IFF(g_wake_calls == 1, oldcount > 1 && (v_is[0].flags & IV_SIGNAL_FLAG_EXCLUSIVE) && v_is[0].active),
			 "[C10] a delivery noted for an exclusive interest that is unregistered before its handler ran is handed to the next interest rather than dropped");
	__CPROVER_assert(g_wake_before_delete == 0, "[C10,C11] the interest has left its set before its pending delivery is handed on, so the wake-up goes to the next interest and not back to the one being unregistered");
	__CPROVER_assert(IMPLIES(g_wake_calls == 1, g_wake_sig == sn && ((v_is[0].flags & IV_SIGNAL_FLAG_THIS_THREAD) ? g_wake_thr == 1 : g_wake_proc == 1)), "[C10] on the same set, for the same signal");
	__CPROVER_assert(g_raw_unreg == 1 && g_raw_unreg_locked == 0, "[C01,C10] the raw event is released after the lock is dropped");
	__CPROVER_assert(!g_lock_held && g_lock_acq == 1 && g_mask == 0x5a5aUL && g_lock_with_unblocked == 0, "[C10,C14] lock and mask balanced");
	CANARY();
}

/* ---- the process signal handler ------------------------------------------ */
void h_handler(void)
{
	v_build();
	__CPROVER_assume(verif_in.woke_thr >= 0 && verif_in.woke_proc >= 0);
	g_mask = ~0UL;		/* installed with a full mask */
	iv_signal_handler(verif_in.sig);
	if (verif_in.owner_pid == 0 || verif_in.owner_pid != verif_in.pid) {
		__CPROVER_assert(g_wake_calls == 0 && g_lock_acq == 0, "[C10] a forked child (or a process without interests) never triggers the parent's handlers");
	} else {
		__CPROVER_assert(IFF(g_wake_thr == 1, verif_in.tinfo_present), "[C10] the receiving thread's own interests are considered first");
		__CPROVER_assert(IFF(g_wake_proc == 1, !verif_in.tinfo_present || verif_in.woke_thr == 0), "[C10] process-wide interests are considered iff no this-thread interest took the delivery");
		__CPROVER_assert(g_wake_proc == g_wake_proc_locked && !g_lock_held, "[C10,C14] the process-wide set is walked under the signal lock");
		__CPROVER_assert(IMPLIES(g_wake_calls, g_wake_sig == verif_in.sig), "[C10] for the delivered signal");
	}
	CANARY();
}

/* ---- post-fork reset ------------------------------------------------------- */
void h_postfork(void)
{
	int sn, other;

	v_build();
	sn = verif_in.sig; other = verif_in.count;
	__CPROVER_assume(sn >= 0 && sn < _NSIG && other >= 0 && other < _NSIG && other != sn);
	{
		int i;
		for (i = 0; i < _NSIG; i++)
			total_num_interests[i] = 0;
	}
	total_num_interests[sn] = 3;
	process_sigs.root = &v_is[0].an;
	v_tinfo.thr_sigs.root = &v_is[1].an;
	g_in_postfork = 1;
	iv_signal_child_reset_postfork();
	g_in_postfork = 0;
	__CPROVER_assert(g_sigactions == 1 && g_sa_sig == sn && g_sa_handler == SIG_DFL, "[C10] in a forked child every signal that had interests gets its default disposition back, and only those");
	__CPROVER_assert(total_num_interests[sn] == 0 && total_num_interests[other] == 0, "[C10] no interest is inherited");
	__CPROVER_assert(sig_owner_pid == 0 && process_sigs.root == NULL && IMPLIES(verif_in.tinfo_present, v_tinfo.thr_sigs.root == NULL), "[C10] both interest sets are emptied");
	CANARY();
}

/* ---- the wake walk on real (small) trees --------------------------------- */
void h_do_wake(void)
{
	int i, j, woken, sig, first_excl = -1, n_shared = 0, exp[NI];

	v_build();
	sig = verif_in.sig;
	for (i = 0; i < NI; i++) {
		__CPROVER_assume(verif_in.signum[i] >= 1 && verif_in.signum[i] <= 3);
		__CPROVER_assume(verif_in.active[i] <= 1);	/* a delivery may already be pending for any of them */
		if (verif_in.in_tree[i])
			iv_avl_tree_insert(&process_sigs, &v_is[i].an);
	}
	woken = __iv_signal_do_wake(&process_sigs, sig);
	/* reference: interests for sig, exclusive ones first, then by address */
	for (i = 0; i < NI; i++) {
		exp[i] = 0;
		if (verif_in.in_tree[i] && v_is[i].signum == sig) {
			if ((v_is[i].flags & IV_SIGNAL_FLAG_EXCLUSIVE) && first_excl < 0)
				first_excl = i;		/* lowest address among the exclusive ones */
		}
	}
	for (i = 0; i < NI; i++) {
		if (verif_in.in_tree[i] && v_is[i].signum == sig) {
			if (first_excl >= 0)
				exp[i] = (i == first_excl);
			else
				exp[i] = 1;
		}
	}
	j = 0;
	for (i = 0; i < NI; i++) {
		__CPROVER_assert(g_posted[i] == exp[i] && v_is[i].active == (exp[i] ? 1 : verif_in.active[i]), "[C10] fan-out: every shared interest for the signal is woken (flag set, raw event posted once, whether or not a delivery was already pending); if an exclusive interest exists it alone takes the delivery; other signals' interests are untouched");
		j += exp[i];
	}
	__CPROVER_assert(woken == j, "[C10] the walk reports how many interests took the delivery, those with a delivery already pending included (a zero makes the handler go on to the process-wide set)");
	CANARY();
}

/* in the register unit the post-fork reset is its own unit: count the call */
int g_postfork_calls;
void s_postfork_stub(void)
{
	int i;
	g_postfork_calls++;
	for (i = 0; i < _NSIG; i++)
		total_num_interests[i] = 0;
	sig_owner_pid = 0;
}
