/*
 * Unit for iv_event_post (src/iv_event.c) under the lock-ownership model of
 * DESIGN 2.3 (C08): the state protected by the destination's event-list mutex
 * -- its pending list and whether this event is queued -- is re-chosen at the
 * moment the lock is acquired (other threads may have changed it until then),
 * independently of what it looked like before.  A decision taken outside the
 * critical section is therefore wrong for some state and fails a clause.
 * This checks the per-call obligations of C08; thread interleavings as such
 * are not explored.  Mode S, loop-free.
 */
#include "iv_event.c"
#include "stubs/base.h"

struct verif_in_t {
	uint8_t	pre_shape, pre_queued;		/* protected state as it looks before the lock is taken */
	uint8_t	shape, queued;			/* ... and at the moment the lock is acquired */
	_Bool	same_thread, use_raw, local_registered;
} verif_in;

static struct iv_state		v_dst, v_me;
static struct iv_event		v_ev;
static struct iv_list_head	v_tail, v_other, v_batch;
static struct iv_fd_poll_method	v_method;
const struct iv_fd_poll_method	*method;

static int g_task_reg, g_raw_posts, g_sends, g_wake_while_locked;
static const struct iv_event_raw *g_raw_arg; static struct iv_state *g_send_arg;

/* shape: 0 empty, 1 one other event, 2 two or more; queued: 0 no, 1 this event is the tail of the
 * pending list, 2 it sits in the runner's detached batch */
static void build_protected(int shape, int queued)
{
	struct iv_list_head *h = &v_dst.events_pending;

	if (shape == 0) {
		h->next = h; h->prev = h;
	} else if (shape == 1) {
		h->next = &v_tail; h->prev = &v_tail; v_tail.next = h; v_tail.prev = h;
	} else {
		h->next = &v_other; h->prev = &v_tail; v_tail.next = h; v_tail.prev = &v_other;
		v_other.prev = h; v_other.next = &v_tail;
	}
	if (queued == 0) {
		v_ev.list.next = &v_ev.list; v_ev.list.prev = &v_ev.list;
	} else if (queued == 1) {
		struct iv_list_head *t = h->prev;
		t->next = &v_ev.list; v_ev.list.prev = t; v_ev.list.next = h; h->prev = &v_ev.list;
	} else {
		v_batch.next = &v_ev.list; v_batch.prev = &v_ev.list; v_ev.list.next = &v_batch; v_ev.list.prev = &v_batch;
	}
}

#define VERIF_ON_LOCK(m)	build_protected(verif_in.shape, verif_in.queued)
#include "stubs/lock.h"

int iv_task_registered(const struct iv_task *t)
{
	__CPROVER_assert(t == &v_dst.events_local, "[C08] same-thread posts use the thread's own event task");
	return verif_in.local_registered;
}
void iv_task_register(struct iv_task *t)
{
	__CPROVER_assert(t == &v_dst.events_local && !verif_in.local_registered, "[C08] the event task is registered only when it is not yet registered");
	g_task_reg++;
	if (g_lock_held) g_wake_while_locked++;
}
void iv_event_raw_post(const struct iv_event_raw *r) { g_raw_posts++; g_raw_arg = r; if (g_lock_held) g_wake_while_locked++; }
static void v_event_send(struct iv_state *dest) { g_sends++; g_send_arg = dest; if (g_lock_held) g_wake_while_locked++; }
int iv_event_raw_register(struct iv_event_raw *r) { return 0; }
void iv_event_raw_unregister(struct iv_event_raw *r) { }
void IV_TASK_INIT(struct iv_task *t) { }

void h_event_post(void)
{
	int wakeups, was_empty, was_queued;
	struct iv_list_head *old_tail;

	VERIF_IN_LOAD();
	__CPROVER_assume(verif_in.pre_shape <= 2 && verif_in.shape <= 2 && verif_in.pre_queued <= 2 && verif_in.queued <= 2);
	verif_st = verif_in.same_thread ? &v_dst : &v_me;
	v_ev.owner = &v_dst;
	iv_event_use_event_raw = verif_in.use_raw;
	method = &v_method;
	v_method.event_send = v_event_send;
	g_lock_obj = &v_dst.event_list_mutex;
	build_protected(verif_in.pre_shape, verif_in.pre_queued);

	iv_event_post(&v_ev);

	was_empty = (verif_in.shape == 0 && verif_in.queued != 1);
	was_queued = (verif_in.queued != 0);
	wakeups = g_task_reg + g_raw_posts + g_sends;
	__CPROVER_assert(!g_lock_held && g_lock_acq == 1, "[C08] the destination's event-list mutex is taken once and released");
	if (!was_queued) {
		__CPROVER_assert(v_dst.events_pending.prev == &v_ev.list && v_ev.list.next == &v_dst.events_pending, "[C08,C11,C12,C13] an event that is not queued is appended to the owner's pending list: the post is not lost");
		old_tail = (verif_in.shape == 0) ? &v_dst.events_pending : &v_tail;
		__CPROVER_assert(v_ev.list.prev == old_tail && old_tail->next == &v_ev.list, "[C08] appended behind what was pending when the lock was held");
	} else {
		__CPROVER_assert(verif_in.queued == 1 ? (v_dst.events_pending.prev == &v_ev.list) : (v_ev.list.next == &v_batch && v_batch.next == &v_ev.list),
				 "[C08] an event that is already queued (pending, or in the batch being run) stays where it is: posts coalesce, never duplicate");
	}
	if (!was_queued && was_empty) {
		__CPROVER_assert(wakeups == 1 || (verif_in.same_thread && verif_in.local_registered && wakeups == 0),
				 "[C08,C11,C12,C13,C15] the post that makes the pending list non-empty wakes the owner (the emptiness test and the insertion belong to one critical section): no lost wake-up");
		if (verif_in.same_thread)
			__CPROVER_assert(g_raw_posts == 0 && g_sends == 0 && g_task_reg == (verif_in.local_registered ? 0 : 1), "[C08] same-thread posts use a task instead of a kick");
		else if (verif_in.use_raw)
			__CPROVER_assert(g_raw_posts == 1 && g_raw_arg == &v_dst.events_kick && g_sends == 0 && g_task_reg == 0, "[C08,C15,C11,C12,C13] raw-event transport: the OWNER's kick descriptor is posted (not the poster's)");
		else
			__CPROVER_assert(g_sends == 1 && g_send_arg == &v_dst && g_raw_posts == 0 && g_task_reg == 0, "[C08,C15,C11,C12,C13] epoll transport: the OWNER's one-shot kick is armed");
	} else {
		__CPROVER_assert(wakeups == 0, "[C08] no wake-up when the list was already non-empty (the owner is already due to run it) or nothing was queued");
	}
	CANARY();
}
