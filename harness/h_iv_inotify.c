/*
 * Units for src/iv_inotify.c (C20, C01, C18), bounded.  Mode S.
 * iv_avl_tree_insert / iv_avl_tree_delete (verified under C16) are replaced
 * by a plain binary-search-tree insert / delete, which is all that
 * __find_watch relies on (running the rebalancing code on symbolic trees
 * exhausts memory).  iv_inotify_got_event's 64 KB receive buffer is
 * shrunk to 256 bytes by a mechanical source patch (a 64 KB array indexed
 * symbolically exhausts the SAT back end); records carry names of 0 or 16
 * bytes, so NE <= 3 records fit.
 */
#include "iv_inotify.c"
#define VERIF_NO_TLS
#include "stubs/base.h"
#include "stubs/fd_model.h"

#ifndef NE
#define NE 2		/* records per read */
#endif
#ifndef NW
#define NW 2		/* watches */
#endif

struct verif_in_t {
	int		n;			/* records in this read, or <= 0 */
	uint8_t		rwd[NE];		/* which watch descriptor each record carries: 0..NW-1 a watch, NW unknown */
	uint32_t	rmask[NE];
	_Bool		rname[NE];		/* record has a 16-byte name */
	_Bool		oneshot[NW];
	_Bool		registered[NW];
	uint8_t		act[NE], who[NE];
	int		rd_errno; uint8_t eintr;
	int		init_ret, add_ret;
	_Bool		rm_fails;
} verif_in;

static struct iv_inotify	*v_in;
static struct iv_inotify_watch	*v_w[NW];
static _Bool	g_wfreed[NW], g_in_tree[NW], g_in_freed;
static int	g_calls, g_delivered[NE], g_last_rec, g_fd_reg, g_fd_unreg, g_eintr;
static long	g_off[NE + 1];
static uint8_t	*g_buf;

/* ---- stand-in for the AVL set: unbalanced BST ordered by tree->compare ---- */
int iv_avl_tree_insert(struct iv_avl_tree *tree, struct iv_avl_node *an)
{
	struct iv_avl_node *p = NULL, **pp = &tree->root;
	int i;

	for (i = 0; i < NW + 1; i++) {
		int c;
		if (*pp == NULL)
			break;
		p = *pp;
		c = tree->compare(an, p);
		if (c == 0)
			return -1;
		pp = (c < 0) ? &p->left : &p->right;
	}
	an->left = NULL; an->right = NULL; an->parent = p; an->height = 1;
	*pp = an;
	return 0;
}

void iv_avl_tree_delete(struct iv_avl_tree *tree, struct iv_avl_node *an)
{
	struct iv_avl_node **ref, *rep;
	int i;

	ref = (an->parent == NULL) ? &tree->root : (an->parent->left == an ? &an->parent->left : &an->parent->right);
	__CPROVER_assert(*ref == an, "[C20,C16] only a node that is in the watch set is deleted from it");
	if (an->left == NULL) {
		rep = an->right;
	} else if (an->right == NULL) {
		rep = an->left;
	} else {
		/* hang the left subtree under the minimum of the right subtree */
		struct iv_avl_node *m = an->right;
		for (i = 0; i < NW; i++) {
			if (m->left == NULL)
				break;
			m = m->left;
		}
		m->left = an->left;
		an->left->parent = m;
		rep = an->right;
	}
	if (rep != NULL)
		rep->parent = an->parent;
	*ref = rep;
}

void iv_fd_register(struct iv_fd *fd) { g_fd_reg++; }
void iv_fd_unregister(struct iv_fd *fd) { g_fd_unreg++; }
void IV_FD_INIT(struct iv_fd *fd) { fd->fd = -1; fd->handler_in = NULL; fd->handler_out = NULL; fd->handler_err = NULL; }
int STUB(inotify_init)(void) { return verif_in.init_ret < 0 ? -1 : k_alloc(KFD_OTHER, 0, 0); }
int STUB(inotify_add_watch)(int fd, const char *path, uint32_t mask) { return verif_in.add_ret; }
int STUB(inotify_rm_watch)(int fd, int wd) { if (verif_in.rm_fails) { verif_errno = EINVAL; return -1; } return 0; }	/* EINVAL: the kernel already dropped the wd */

ssize_t STUB(read)(int fd, void *buf, size_t n)
{
	int i;
	long off = 0;

	__CPROVER_assert(fd == v_in->fd.fd, "[C20] events are read from the instance's descriptor");
	if (g_eintr > 0) { g_eintr--; verif_errno = EINTR; return -1; }
	if (verif_in.n <= 0) { verif_errno = EAGAIN; return -1; }
	g_buf = buf;
	for (i = 0; i < NE; i++) {
		struct inotify_event *ev;

		if (i >= verif_in.n)
			break;
		g_off[i] = off;
		ev = (struct inotify_event *)((uint8_t *)buf + off);
		ev->wd = (verif_in.rwd[i] < NW) ? 100 + 10 * verif_in.rwd[i] : 7;
		ev->mask = verif_in.rmask[i];
		ev->cookie = 0;
		ev->len = verif_in.rname[i] ? 16 : 0;
		off += sizeof(struct inotify_event) + ev->len;
	}
	g_off[verif_in.n < NE ? verif_in.n : NE] = off;
	__CPROVER_assert((size_t)off <= n, "records fit the receive buffer of this unit");
	return off;
}

/* specification of the lookup: the watch with descriptor wd in the instance's ordered set
 * (the harness's own walk: the code's lookup helper is free to change its shape) */
static struct iv_inotify_watch *spec_find(const struct iv_inotify *in, int wd)
{
	struct iv_avl_node *an = in->watches.root;
	int d;

	for (d = 0; d <= NW && an != NULL; d++) {
		struct iv_inotify_watch *w = iv_container_of(an, struct iv_inotify_watch, an);

		if (wd == w->wd)
			return w;
		an = (wd < w->wd) ? an->left : an->right;
	}
	return NULL;
}

static void mgc_watch(void *cookie, struct inotify_event *ev)
{
	int i = (int)(intptr_t)cookie, k, rec = -1;

	__CPROVER_assert(i >= 0 && i < NW && !g_wfreed[i], "[C20,C01] no delivery to a watch that was unregistered (and freed)");
	__CPROVER_assert(!g_in_freed, "[C20,C01] no delivery after the instance was unregistered");
	for (k = 0; k < NE; k++)
		if (k < verif_in.n && (uint8_t *)ev == g_buf + g_off[k])
			rec = k;
	__CPROVER_assert(rec >= 0, "[C20] the handler gets a record of this read");
	__CPROVER_assert(ev->wd == v_w[i]->wd, "[C20] each event goes to the watch whose descriptor it carries, and to no other");
	__CPROVER_assert(rec > g_last_rec, "[C20] events are delivered in kernel order, each at most once");
	g_last_rec = rec;
	if (rec >= 0 && rec < NE)
		g_delivered[rec]++;
	__CPROVER_assert(IMPLIES((ev->mask & IN_IGNORED) || (v_w[i]->mask & IN_ONESHOT), spec_find(v_in, v_w[i]->wd) == NULL),
			 "[C20] a watch removed by the kernel or declared one-shot is dropped from the instance before its handler runs");
	if ((ev->mask & IN_IGNORED) || (v_w[i]->mask & IN_ONESHOT))
		g_in_tree[i] = 0;

	if (g_calls < NE) {
		uint8_t a = verif_in.act[g_calls];
		int j = verif_in.who[g_calls];

		if (a == 1 && j >= 0 && j < NW && !g_wfreed[j]) {
			/* unregister watch j (if still registered) and free it */
			if (g_in_tree[j]) {
				iv_inotify_watch_unregister(v_w[j]);
				g_in_tree[j] = 0;
			}
			free(v_w[j]);
			g_wfreed[j] = 1;
		} else if (a == 3 && !g_in_freed) {
			/* orderly shut-down: every watch first, then the (now empty) instance; free everything */
			for (k = 0; k < NW; k++) {
				if (!g_wfreed[k] && g_in_tree[k]) {
					iv_inotify_watch_unregister(v_w[k]);
					g_in_tree[k] = 0;
				}
			}
			iv_inotify_unregister(v_in);
			for (k = 0; k < NW; k++) {
				if (!g_wfreed[k]) {
					free(v_w[k]);
					g_wfreed[k] = 1;
				}
			}
			free(v_in);
			g_in_freed = 1;
		} else if (a == 2) {
			/* unregister the whole instance and free everything */
			iv_inotify_unregister(v_in);
			for (k = 0; k < NW; k++) {
				if (!g_wfreed[k]) {
					free(v_w[k]);
					g_wfreed[k] = 1;
				}
			}
			free(v_in);
			g_in_freed = 1;
		}
	}
	g_calls++;
}

static void v_build(void)
{
	int i;

	VERIF_IN_LOAD();
	__CPROVER_assume(verif_in.n <= NE && verif_in.eintr <= 2);
	g_eintr = verif_in.eintr;
	g_last_rec = -1;
	v_in = malloc(sizeof(*v_in));
	__CPROVER_assume(v_in != NULL);
	v_in->fd.fd = k_alloc(KFD_OTHER, 1, 1);
	v_in->term = NULL;
	INIT_IV_AVL_TREE(&v_in->watches, __iv_inotify_watch_compare);
	for (i = 0; i < NW; i++) {
		v_w[i] = malloc(sizeof(struct iv_inotify_watch));
		__CPROVER_assume(v_w[i] != NULL);
		v_w[i]->inotify = v_in;
		v_w[i]->mask = verif_in.oneshot[i] ? (IN_MODIFY | IN_ONESHOT) : IN_MODIFY;
		v_w[i]->cookie = (void *)(intptr_t)i;
		v_w[i]->handler = mgc_watch;
		v_w[i]->wd = 100 + 10 * i;
		if (verif_in.registered[i]) {
			iv_avl_tree_insert(&v_in->watches, &v_w[i]->an);
			g_in_tree[i] = 1;
		}
	}
	for (i = 0; i < NE; i++)
		__CPROVER_assume(verif_in.rwd[i] <= NW);
}

void h_got_event(void)
{
	int i;
	_Bool live0[NW];

	v_build();
	for (i = 0; i < NW; i++)
		live0[i] = g_in_tree[i];
	iv_inotify_got_event(v_in);
	if (!g_in_freed) {
		__CPROVER_assert(v_in->term == NULL, "[C20] the parse loop's back pointer is cleared when the loop ends");
		for (i = 0; i < NE; i++) {
			if (i >= verif_in.n)
				break;
			__CPROVER_assert(g_delivered[i] <= 1, "[C20] a record is delivered at most once");
			__CPROVER_assert(IMPLIES(verif_in.rwd[i] == NW, g_delivered[i] == 0), "[C20] a record for an unknown watch descriptor is skipped");
		}
	}
	if (verif_in.n >= 1 && verif_in.rwd[0] < NW && live0[verif_in.rwd[0]])
		__CPROVER_assert(g_delivered[0] == 1, "[C20] the first record of a read reaches its registered watch");
	if (verif_in.n >= 1 && verif_in.rwd[0] < NW && !live0[verif_in.rwd[0]])
		__CPROVER_assert(g_delivered[0] == 0, "[C20] a record for a watch that is not registered is not delivered");
	CANARY();
}

/* ---- register / unregister (loop-free) ---------------------------------- */
void h_register(void)
{
	struct iv_inotify in;
	int r;

	VERIF_IN_LOAD();
	r = iv_inotify_register(&in);
	__CPROVER_assert(IFF(r == 0, verif_in.init_ret >= 0) && (r == 0 || r == -1), "[C20] registration succeeds iff the kernel instance could be created");
	if (r == 0) {
		__CPROVER_assert(g_fd_reg == 1 && in.fd.handler_in == iv_inotify_got_event && in.fd.cookie == &in && k_fd[in.fd.fd].open, "[C20] the instance descriptor is registered for input with the parse routine");
		__CPROVER_assert(in.watches.root == NULL && in.watches.compare == __iv_inotify_watch_compare, "[C20] empty watch set ordered by watch descriptor");
		iv_inotify_unregister(&in);
		__CPROVER_assert(g_fd_unreg == 1 && k_open_count() == 0 && k_bad_close == 0, "[C18,C01] unregistering removes the descriptor from the loop and closes it, once");
	} else {
		__CPROVER_assert(g_fd_reg == 0 && k_open_count() == 0, "[C18] nothing is left behind on failure");
	}
	CANARY();
}

void h_watch_register(void)
{
	int r;

	v_build();
	__CPROVER_assume(!verif_in.registered[0]);
	r = iv_inotify_watch_register(v_w[0]);
	__CPROVER_assert(IMPLIES(verif_in.add_ret == -1, r == -1 && spec_find(v_in, 100) == NULL), "[C20] a watch the kernel refuses is not added");
	__CPROVER_assert(IMPLIES(r == 0, spec_find(v_in, verif_in.add_ret) == v_w[0] && v_w[0]->wd == verif_in.add_ret), "[C20] a registered watch is found under the descriptor the kernel assigned");
	if (NW >= 2 && verif_in.registered[1] && verif_in.add_ret == v_w[1]->wd)
		__CPROVER_assert(r == -1 && spec_find(v_in, verif_in.add_ret) == v_w[1], "[C20] the kernel hands out one descriptor per watched inode: a second watch object that gets a descriptor already held by a registered watch is refused, and that watch stays the one events are routed to");
	CANARY();
}

void h_watch_unregister(void)
{
	v_build();
	__CPROVER_assume(verif_in.registered[0]);
	iv_inotify_watch_unregister(v_w[0]);
	__CPROVER_assert(spec_find(v_in, v_w[0]->wd) == NULL, "[C20,C01] an unregistered watch is out of the instance's set whatever inotify_rm_watch answered (EINVAL when the kernel dropped the descriptor first: its last records may still be queued, and they must find no watch)");
	if (NW >= 2 && verif_in.registered[1])
		__CPROVER_assert(spec_find(v_in, v_w[1]->wd) == v_w[1], "[C20] other watches of the instance stay registered");
	CANARY();
}

