/*
 * Units for the capacity boundaries of the timer store (src/iv_timer.c), with
 * the REAL iv_timer_get_node, iv_timer_radix_tree_remove_level and
 * iv_timer_free_ratnode on a real two-level store at the 128-entry boundary:
 * population 128 -> 127 (a level is released) and 127 -> 128 (a level is
 * added).  Indices are concrete, keys irrelevant (pull_up / push_down are
 * replaced by their call-log contracts).  C05, C18, C01.  Mode S.
 * Compiled with the ratnode union turned into a struct (mechanical patch).
 */
#include <stdlib.h>
void verif_free(void *p);
#define free(p)	verif_free(p)
#include "iv_timer.c"
#undef free
#include "stubs/base.h"

struct verif_in_t {
	int	numobjs;
	int	victim;		/* 1..128 */
} verif_in;

static struct iv_state	v_state;
static struct iv_timer_	v_T[130];
static struct iv_timer_ratnode *v_root, *v_leaf1;
static int g_frees, g_freed_root, g_freed_leaf1, g_pull, g_push, g_pull_index, g_push_index;
static struct iv_timer_ **g_pull_ptr, **g_push_ptr;

void verif_free(void *p)
{
	g_frees++;
	if (p == (void *)v_root) g_freed_root++;
	if (p == (void *)v_leaf1) g_freed_leaf1++;
	free(p);
}
void iv_time_get(struct timespec *t) { t->tv_sec = 0; t->tv_nsec = 0; }

void s_pull_up(struct iv_state *st, int index, struct iv_timer_ **i)
{
	__CPROVER_assert(*i != NULL && (*i)->index == index, "[C05] sift-up starts on a live slot whose back index is exact");
	g_pull++; g_pull_index = index; g_pull_ptr = i;
}
void s_push_down(struct iv_state *st, int index, struct iv_timer_ **i)
{
	__CPROVER_assert(*i != NULL && (*i)->index == index, "[C05] sift-down starts on a live slot whose back index is exact");
	g_push++; g_push_index = index; g_push_ptr = i;
}

/* two-level store holding n timers (n <= 128): slots 1..127 in the first leaf, slot 128 in a second leaf */
static void build_store(int n, int depth)
{
	int i;

	verif_st = &v_state;
	v_state.num_timers = n;
	v_state.rat_depth = depth;
	for (i = 1; i <= n && i < 128; i++) {
		v_state.ratnode.first_leaf.child[i] = &v_T[i];
		v_T[i].index = i;
	}
	if (depth == 1) {
		v_root = calloc(1, sizeof(*v_root));
		v_leaf1 = calloc(1, sizeof(*v_leaf1));
		__CPROVER_assume(v_root != NULL && v_leaf1 != NULL);
		v_root->child[0] = &v_state.ratnode.first_leaf;
		v_root->child[1] = v_leaf1;
		v_state.ratnode.timer_root = v_root;
		if (n >= 128) {
			v_leaf1->child[0] = &v_T[128];
			v_T[128].index = 128;
		}
	} else {
		v_state.ratnode.timer_root = &v_state.ratnode.first_leaf;
	}
}

/* 128 -> 127: the level that was needed only for slot 128 is released */
void h_shrink(void)
{
	int v, i;

	VERIF_IN_LOAD();
	__CPROVER_assume(verif_in.numobjs >= 128 && verif_in.numobjs < 100000);
	v_state.numobjs = verif_in.numobjs;
#ifdef VICTIM
	v = VICTIM;
#else
	v = 128;
#endif
	build_store(128, 1);

	iv_timer_unregister((struct iv_timer *)&v_T[v]);

	__CPROVER_assert(v_T[v].index == -1 && v_state.num_timers == 127 && v_state.numobjs == verif_in.numobjs - 1, "[C01,C05,C07] the victim is gone, the population and the object count drop by one");
	__CPROVER_assert(v_state.rat_depth == 0 && v_state.ratnode.timer_root == &v_state.ratnode.first_leaf, "[C05] dropping to 127 entries releases the second level: the store is the first leaf again");
	__CPROVER_assert(g_frees == 2 && g_freed_root == 1 && g_freed_leaf1 == 1, "[C18] the released level's nodes are freed exactly once each (root and the leaf that held slot 128)");
	for (i = 1; i < 128; i++) {
		if (i == v)
			continue;
		__CPROVER_assert(v_state.ratnode.first_leaf.child[i] == (void *)&v_T[i] && v_T[i].index == i, "[C05] every other timer keeps its slot across the shrink (independence)");
	}
	if (v == 128) {
		__CPROVER_assert(g_pull == 0 && g_push == 0, "[C05,C18] removing the last element moves nothing: nothing is sifted and the freed leaf is not looked at again");
	} else {
		__CPROVER_assert(v_state.ratnode.first_leaf.child[v] == (void *)&v_T[128] && v_T[128].index == v, "[C05] the last element (from the released leaf) fills the hole with an exact back index");
		__CPROVER_assert(g_pull == 1 && g_push == 1 && g_pull_ptr == (struct iv_timer_ **)&v_state.ratnode.first_leaf.child[v] && g_push_ptr == g_pull_ptr && g_pull_index == v, "[C05] and is sifted both ways from its new slot, which lies in the surviving leaf");
	}
	CANARY();
}

/* 127 -> 128: a level is added; existing slots do not move */
void h_grow(void)
{
	int i;
	struct iv_timer_ratnode *root;

	VERIF_IN_LOAD();
	__CPROVER_assume(verif_in.numobjs >= 127 && verif_in.numobjs < 100000);
	v_state.numobjs = verif_in.numobjs;
	build_store(127, 0);
	v_T[128].index = -1;

	iv_timer_register((struct iv_timer *)&v_T[128]);

	root = v_state.ratnode.timer_root;
	__CPROVER_assert(v_state.num_timers == 128 && v_state.rat_depth == 1 && v_state.numobjs == verif_in.numobjs + 1, "[C05,C07] the 128th timer adds a level to the store");
	__CPROVER_assert(root != &v_state.ratnode.first_leaf && root->child[0] == (void *)&v_state.ratnode.first_leaf, "[C05] the old store becomes subtree 0 of the new root");
	__CPROVER_assert(root->child[1] != NULL && ((struct iv_timer_ratnode *)root->child[1])->child[0] == (void *)&v_T[128] && v_T[128].index == 128, "[C05] the new timer sits in slot 0 of a fresh second leaf, with an exact back index");
	for (i = 1; i < 128; i++)
		__CPROVER_assert(v_state.ratnode.first_leaf.child[i] == (void *)&v_T[i] && v_T[i].index == i, "[C05] no existing timer moves when the store grows (independence)");
	__CPROVER_assert(g_pull == 1 && g_pull_index == 128 && g_frees == 0, "[C05] the new element is sifted up from its slot");
	CANARY();
}

/* ---- iv_timer_deinit: every level above the first leaf is released ---------------------- */
void h_deinit(void)
{
	struct iv_timer_ratnode *l2root, *mid0, *mid1, *leafA, *leafB;

	VERIF_IN_LOAD();
	verif_st = &v_state;
	/* three-level store: root2 -> { mid0 -> { first_leaf, leafA }, mid1 -> { leafB } } */
	l2root = calloc(1, sizeof(*l2root)); mid0 = calloc(1, sizeof(*mid0)); mid1 = calloc(1, sizeof(*mid1));
	leafA = calloc(1, sizeof(*leafA)); leafB = calloc(1, sizeof(*leafB));
	__CPROVER_assume(l2root && mid0 && mid1 && leafA && leafB);
	l2root->child[0] = mid0; l2root->child[1] = mid1;
	mid0->child[0] = &v_state.ratnode.first_leaf; mid0->child[1] = leafA;
	mid1->child[0] = leafB;
	v_state.ratnode.timer_root = l2root;
	v_state.rat_depth = 2;
	v_state.num_timers = 0;
	iv_timer_deinit(&v_state);
	__CPROVER_assert(v_state.rat_depth == 0 && v_state.ratnode.timer_root == NULL, "[C18] the store is dismantled");
	__CPROVER_assert(g_frees == 5, "[C18] every node above the embedded first leaf is freed exactly once (double frees and leaks are also CBMC failures)");
	CANARY();
}
