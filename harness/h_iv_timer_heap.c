/*
 * Bounded units for the timer heap of src/iv_timer.c (sift loops) on a flat
 * slot array: iv_timer_get_node is replaced (goto-instrument --replace-calls)
 * by its contract "slot of index i is &H[i], stable, distinct for distinct
 * indices" (proved for the real radix tree in unit timer_get_node), and
 * iv_timer_radix_tree_remove_level by a stub that must not be reached.
 * One unit per concrete heap size HN (and victim position HV for
 * unregister); keys are symbolic 128-bit timespecs, equal keys included.
 * C05, C04, C07, C01, C18.  Mode S.
 */
#include "iv_timer.c"
#include "stubs/base.h"

#ifndef HN
#define HN 3
#endif
#ifndef HV
#define HV 1
#endif

struct verif_in_t {
	long	sec[HN + 2];
	long	nsec[HN + 2];
	int	numobjs;
} verif_in;

static struct iv_state	v_state;
static struct iv_timer_	v_T[HN + 2];		/* v_T[1..HN] in the heap, v_T[HN+1] the new one */

void iv_time_get(struct timespec *t) { t->tv_sec = 0; t->tv_nsec = 0; }

#ifdef VERIF_NATIVE
/* native replay runs the REAL iv_timer_get_node on a real one-level store
 * (HN < 128, rat_depth 0): the slots are those of st->ratnode.first_leaf */
#define v_H	((struct iv_timer_ **)v_state.ratnode.first_leaf.child)
#else
static struct iv_timer_	*v_H[HN + 4];
#endif
#define SLOT(i)	(v_H[i])

struct iv_timer_ **verif_get_node(struct iv_state *st, int index)
{
	__CPROVER_assert(st == &v_state && index >= 1 && index <= HN + 2, "[C05] slot lookups stay within the population (+ the free slot that push_down peeks at)");
	return &v_H[index];
}

static int le(const struct iv_timer_ *a, const struct iv_timer_ *b)
{
	return !timespec_gt(&a->expires, &b->expires);
}

/* heap order, back indices, every timer present exactly once, free slot NULL */
static void assume_heap(int n)
{
	int i;

	for (i = 1; i <= n; i++) {
		v_H[i] = &v_T[i];
		v_T[i].index = i;
	}
	for (i = 2; i <= n; i++)
		__CPROVER_assume(le(SLOT(i / 2), SLOT(i)));
	for (i = n + 1; i < HN + 4; i++)
		v_H[i] = NULL;
	v_H[0] = NULL;
#ifdef VERIF_NATIVE
	iv_timer_init(&v_state);	/* timer_root overlays slot 0 */
#endif
}

static void assert_heap(int n, int first, int last, int skip)
{
	int i, j;

	for (i = 1; i <= n; i++) {
		__CPROVER_assert(SLOT(i) != NULL, "[C05] heap slot is occupied");
		__CPROVER_assert(SLOT(i)->index == i, "[C05,C01] back index of every heap slot is exact");
	}
	for (i = 2; i <= n; i++)
		__CPROVER_assert(le(SLOT(i / 2), SLOT(i)), "[C05,C04] heap order: no timer sits above one with a strictly earlier expiry (so the root is the earliest)");
	__CPROVER_assert(SLOT(n + 1) == NULL, "[C05] first free slot is empty");
	for (j = first; j <= last; j++) {
		if (j == skip)
			continue;
		__CPROVER_assert(v_T[j].index >= 1 && v_T[j].index <= n && SLOT(v_T[j].index) == &v_T[j],
				 "[C05] every other registered timer is still in the store exactly once (independence)");
		__CPROVER_assert(v_T[j].expires.tv_sec == verif_in.sec[j] && v_T[j].expires.tv_nsec == verif_in.nsec[j],
				 "[C05] no timer's expiry is changed");
	}
}

static void v_build(void)
{
	int i;

	VERIF_IN_LOAD();
	verif_st = &v_state;
	v_state.rat_depth = 0;
	v_state.num_timers = HN;
	__CPROVER_assume(verif_in.numobjs >= HN && verif_in.numobjs < 1000000);
	v_state.numobjs = verif_in.numobjs;
	for (i = 0; i < HN + 2; i++) {
		__CPROVER_assume(verif_in.nsec[i] >= 0 && verif_in.nsec[i] < 1000000000);
		v_T[i].expires.tv_sec = verif_in.sec[i];
		v_T[i].expires.tv_nsec = verif_in.nsec[i];
		v_T[i].index = -1;
	}
	assume_heap(HN);
}

void h_heap_register(void)
{
	v_build();
	iv_timer_register((struct iv_timer *)&v_T[HN + 1]);
	__CPROVER_assert(v_state.num_timers == HN + 1 && v_state.rat_depth == 0, "[C05] population grows by one");
	__CPROVER_assert(v_state.numobjs == verif_in.numobjs + 1, "[C07] accounting: +1");
	assert_heap(HN + 1, 1, HN + 1, -1);
	CANARY();
}

void h_heap_unregister(void)
{
	v_build();
	iv_timer_unregister((struct iv_timer *)&v_T[HV]);
	__CPROVER_assert(v_state.num_timers == HN - 1, "[C05] population shrinks by one");
	__CPROVER_assert(v_state.numobjs == verif_in.numobjs - 1, "[C07] accounting: -1");
	__CPROVER_assert(v_T[HV].index == -1, "[C01] the victim reads as unregistered");
	assert_heap(HN - 1, 1, HN, HV);
	{
		int i;
		for (i = 1; i <= HN - 1; i++)
			__CPROVER_assert(SLOT(i) != &v_T[HV], "[C01] no slot of the store points to the unregistered timer");
	}
	CANARY();
}

/* a one-level store is never shrunk (replaces iv_timer_radix_tree_remove_level in these units) */
void verif_no_remove_level(struct iv_state *st)
{
	__CPROVER_assert(0, "[C05] no level is removed from a one-level store");
}
