/*
 * Units for src/iv_event_raw_posix.c and src/eventfd-linux.h (C09, C15, C01,
 * C07, C18).  Mode S against the ghost descriptor table.  The fd layer
 * (iv_fd_register / iv_fd_unregister / iv_fd_set_cloexec / iv_fd_set_nonblock)
 * is replaced by stubs that implement the contracts proved in h_iv_fd.c.
 * syscall() is routed to a 3-argument stub by a macro.
 */
#include <unistd.h>
#include <sys/syscall.h>
long verif_syscall(long nr, long a, long b);
#define VERIF_SYS3(nr, a, b, ...)	verif_syscall(nr, (long)(a), (long)(b))
#define syscall(...)			VERIF_SYS3(__VA_ARGS__, 0, 0)
#include "iv_event_raw_posix.c"
#undef syscall
#include "stubs/base.h"
#include "stubs/fd_model.h"

struct verif_in_t {
	_Bool	other_downgrade;
	int	efd_in_use;
	int	efd2_errno, efd_errno, pipe_errno;
	int	numobjs;
	int	wr_ret, wr_errno, rd_ret, rd_errno;
	uint8_t	wr_eintr, rd_eintr;
} verif_in;

static struct iv_state		v_state;
static struct iv_event_raw	v_er;
static int	g_fd_reg, g_fd_unreg, g_unreg_then_close_ok, g_efd2, g_efd, g_pipes;
static int	g_writes, g_reads, g_handler_calls, g_wr_eintr, g_rd_eintr, g_other_calls;
static size_t	g_wr_n, g_rd_n; static int g_wr_fd, g_rd_fd; static uint64_t g_wr_val; static _Bool g_wr_val_ok;

long verif_syscall(long nr, long a, long b)
{
	if (nr == __NR_eventfd2) {
		g_efd2++;
		__CPROVER_assert(a == 0 && b == (EFD_CLOEXEC | EFD_NONBLOCK), "[C09,C18] eventfd2 is asked for a close-on-exec, non-blocking descriptor");
		if (verif_in.efd2_errno) {
			/* the flavour flag is a process-wide variable without a lock: another thread that met the
			 * same failure may already have lowered it */
			if (verif_in.other_downgrade && eventfd_in_use == 2 && (verif_in.efd2_errno == EINVAL || verif_in.efd2_errno == ENOSYS))
				eventfd_in_use = 1;
			verif_errno = verif_in.efd2_errno;
			return -1;
		}
		return k_alloc(KFD_EVENTFD, 1, 1);
	}
	if (nr == __NR_eventfd) {
		g_efd++;
		if (verif_in.efd_errno) { verif_errno = verif_in.efd_errno; return -1; }
		return k_alloc(KFD_EVENTFD, 0, 0);
	}
	__CPROVER_assert(0, "unexpected raw system call");
	return -1;
}
int STUB(pipe)(int fd[2])
{
	g_pipes++;
	if (verif_in.pipe_errno) { verif_errno = verif_in.pipe_errno; return -1; }
	fd[0] = k_alloc(KFD_PIPE_R, 0, 0);
	fd[1] = k_alloc(KFD_PIPE_W, 0, 0);
	return 0;
}
void STUB(perror)(const char *s) { }

/* contracts of the fd layer (proved on the real functions in h_iv_fd.c) */
void IV_FD_INIT(struct iv_fd *fd) { fd->fd = -1; fd->handler_in = NULL; fd->handler_out = NULL; fd->handler_err = NULL; }
void iv_fd_register(struct iv_fd *fd)
{
	__CPROVER_assert(fd->fd >= 3 && fd->fd < KFD_MAX && k_fd[fd->fd].open, "[C09] an open descriptor is registered");
	g_fd_reg++;
	v_state.numobjs++;
	v_state.numfds++;
	k_fd[fd->fd].cloexec = 1;
	k_fd[fd->fd].nonblock = 1;
}
void iv_fd_unregister(struct iv_fd *fd)
{
	__CPROVER_assert(fd->fd >= 3 && fd->fd < KFD_MAX && k_fd[fd->fd].open, "[C01] the descriptor is unregistered from the loop before it is closed");
	g_fd_unreg++;
	v_state.numobjs--;
	v_state.numfds--;
}
void iv_fd_set_cloexec(int fd) { if (fd >= 0 && fd < KFD_MAX) k_fd[fd].cloexec = 1; }
void iv_fd_set_nonblock(int fd) { if (fd >= 0 && fd < KFD_MAX) k_fd[fd].nonblock = 1; }

static int g_wr_final;
ssize_t STUB(write)(int fd, const void *buf, size_t n)
{
	if (g_wr_final) {
		/* the previous write was not interrupted: whatever it returned (success, EAGAIN on a full pipe, ...) ends the post */
		__CPROVER_assert(0, "[C09,C08] the wake-up write is repeated only after EINTR: a full pipe or counter (EAGAIN) means a wake-up is already pending, and posting must never block or spin");
		__CPROVER_assume(0);
	}
	g_writes++; g_wr_fd = fd; g_wr_n = n;
	g_wr_val_ok = (n == 8) ? (*(const uint64_t *)buf == 1) : (n == 1);
	if (g_wr_eintr > 0) { g_wr_eintr--; verif_errno = EINTR; return -1; }
	g_wr_final = 1;
	if (verif_in.wr_ret < 0) { verif_errno = verif_in.wr_errno; return -1; }
	return verif_in.wr_ret;
}
ssize_t STUB(read)(int fd, void *buf, size_t n)
{
	__CPROVER_assert(g_handler_calls == 0, "[C09,C08] the descriptor is drained before the handler runs, never after it: a post made while the handler runs must leave the descriptor readable so that the handler runs again");
	g_reads++; g_rd_fd = fd; g_rd_n = n;
	if (g_rd_eintr > 0) { g_rd_eintr--; verif_errno = EINTR; return -1; }
	if (verif_in.rd_ret < 0) { verif_errno = verif_in.rd_errno; return -1; }
	if (g_reads > verif_in.rd_eintr + 1) {
		/* everything pending was handed out by the first successful read: the descriptor is empty now */
		verif_errno = EAGAIN;
		return -1;
	}
	__CPROVER_assume((size_t)verif_in.rd_ret <= n);
	return verif_in.rd_ret;
}
static void v_handler(void *c) { __CPROVER_assert(c == &v_er, "[C09] handler gets the object's cookie"); g_handler_calls++; }

static void v_build(void)
{
	VERIF_IN_LOAD();
	verif_st = &v_state;
	__CPROVER_assume(verif_in.efd_in_use >= 0 && verif_in.efd_in_use <= 2);
	eventfd_in_use = verif_in.efd_in_use;
	__CPROVER_assume(verif_in.numobjs >= 0 && verif_in.numobjs < 100000);
	/* errno values are small positive integers (0 here means: the call succeeds) */
	__CPROVER_assume(verif_in.efd2_errno >= 0 && verif_in.efd2_errno < 4096 && verif_in.efd_errno >= 0 && verif_in.efd_errno < 4096);
	__CPROVER_assume(verif_in.pipe_errno >= 0 && verif_in.pipe_errno < 4096);
	v_state.numobjs = verif_in.numobjs;
	v_state.numfds = 0;
	v_er.cookie = &v_er;
	v_er.handler = v_handler;
	__CPROVER_assume(verif_in.wr_eintr <= 2 && verif_in.rd_eintr <= 2 && verif_in.wr_errno != EINTR && verif_in.rd_errno != EINTR);
	g_wr_eintr = verif_in.wr_eintr; g_rd_eintr = verif_in.rd_eintr; g_wr_final = 0;
}

/* ---- eventfd_grab: eventfd2 -> eventfd -> none ------------------------------ */
void h_eventfd_grab(void)
{
	int r, old;

	v_build();
	old = eventfd_in_use;
	r = eventfd_grab();
	__CPROVER_assert(eventfd_in_use <= old, "[C15] the detected eventfd flavour only ever degrades (idempotent one-way flag)");
	__CPROVER_assert(IMPLIES(old == 2, g_efd2 == 1), "[C15] eventfd2 is tried first");
	__CPROVER_assert(IMPLIES(old == 2 && verif_in.efd2_errno != 0 && verif_in.efd2_errno != EINVAL && verif_in.efd2_errno != ENOSYS, r == -verif_in.efd2_errno && g_efd == 0), "[C15,C09] a real error (descriptor limit ...) is reported, not mistaken for a missing call");
	__CPROVER_assert(IMPLIES(old == 2 && verif_in.efd2_errno != 0 && verif_in.efd2_errno != EINVAL && verif_in.efd2_errno != ENOSYS, eventfd_in_use == old), "[C09,C15] a real error leaves the detected flavour alone: objects registered earlier keep the write format of their descriptor, so their posts are not lost");
	__CPROVER_assert(IMPLIES(old == 2 && (verif_in.efd2_errno == EINVAL || verif_in.efd2_errno == ENOSYS), g_efd == 1 && eventfd_in_use <= 1), "[C15] missing eventfd2 falls back to eventfd and is remembered");
	__CPROVER_assert(IMPLIES(r == -ENOSYS, eventfd_in_use == 0), "[C15] -ENOSYS means: use a pipe from now on");
	__CPROVER_assert(IMPLIES(old == 2 && (verif_in.efd2_errno == EINVAL || verif_in.efd2_errno == ENOSYS) && verif_in.efd_errno == 0, eventfd_in_use == 1 && r >= 0),
			 "[C09,C15] falling back from eventfd2 to eventfd sets the flavour to exactly 'eventfd', also when another thread made the same step at the same time: descriptors handed out stay eventfds and are written to as such");
	__CPROVER_assert(IMPLIES(old == 0, r == -ENOSYS && g_efd2 == 0 && g_efd == 0), "[C15] known-absent eventfd is not retried");
	__CPROVER_assert(IMPLIES(r >= 0, k_fd[r].open && k_fd[r].kind == KFD_EVENTFD && k_open_count() == 1), "[C18] one descriptor on success");
	__CPROVER_assert(IMPLIES(r < 0, k_open_count() == 0), "[C18] none on failure");
	CANARY();
}

/* ---- register / unregister ---------------------------------------------------- */
void h_raw_register(void)
{
	int r;

	v_build();
	r = iv_event_raw_register(&v_er);
	__CPROVER_assert(r == 0 || r == -1, "[C09] 0 or -1");
	if (r == 0) {
		int rf = v_er.event_rfd.fd, wf = v_er.event_wfd;

		__CPROVER_assert(g_fd_reg == 1 && v_state.numobjs == verif_in.numobjs + 1, "[C07,C09] the read side is registered with the loop: one loop object");
		__CPROVER_assert(v_er.event_rfd.handler_in == iv_event_raw_got_event && v_er.event_rfd.cookie == &v_er, "[C09] readiness of the descriptor drains it and calls the user handler");
		__CPROVER_assert(rf >= 3 && wf >= 3 && k_fd[rf].open && k_fd[wf].open, "[C09] both ends are open");
		__CPROVER_assert(k_fd[rf].nonblock && k_fd[wf].nonblock, "[C09,C15,C08] both ends are non-blocking whichever transport was chosen: posting never blocks the poster, draining never blocks the loop");
		__CPROVER_assert(k_fd[rf].cloexec && k_fd[wf].cloexec, "[C18,C15] both ends are close-on-exec");
		__CPROVER_assert(IFF(eventfd_in_use, rf == wf) && k_open_count() == (eventfd_in_use ? 1 : 2), "[C09,C15] one eventfd, or the two ends of a pipe when eventfd is unavailable");
		__CPROVER_assert(IMPLIES(eventfd_in_use, k_fd[rf].kind == KFD_EVENTFD) && IMPLIES(!eventfd_in_use, k_fd[rf].kind == KFD_PIPE_R && k_fd[wf].kind == KFD_PIPE_W), "[C09] read from the read end, post to the write end");
	} else {
		__CPROVER_assert(g_fd_reg == 0 && v_state.numobjs == verif_in.numobjs && k_open_count() == 0, "[C07,C18] failure registers nothing and leaks nothing");
	}
	CANARY();
}

void h_raw_unregister(void)
{
	v_build();
	__CPROVER_assume(verif_in.numobjs >= 1);
	v_state.numfds = 1;
	if (eventfd_in_use) {
		v_er.event_rfd.fd = v_er.event_wfd = k_alloc(KFD_EVENTFD, 1, 1);
	} else {
		v_er.event_rfd.fd = k_alloc(KFD_PIPE_R, 1, 1);
		v_er.event_wfd = k_alloc(KFD_PIPE_W, 1, 1);
	}
	iv_event_raw_unregister(&v_er);
	__CPROVER_assert(g_fd_unreg == 1 && v_state.numobjs == verif_in.numobjs - 1, "[C01,C07] the descriptor leaves the loop");
	__CPROVER_assert(k_open_count() == 0 && k_bad_close == 0, "[C18,C15,C08,C09] exactly the descriptors that were opened are closed, each once, with eventfd and with the pipe transport (a second close can hit a descriptor number another thread has just been given)");
	CANARY();
}

/* ---- post --------------------------------------------------------------------- */
void h_raw_post(void)
{
	v_build();
	v_er.event_wfd = 7;
	iv_event_raw_post(&v_er);
	__CPROVER_assert(g_writes == verif_in.wr_eintr + 1, "[C09,C15,C08] the wake-up write is retried when interrupted and otherwise issued once (a full pipe is harmless: something is already pending)");
	__CPROVER_assert(g_wr_fd == 7 && g_wr_n == (eventfd_in_use ? 8 : 1) && g_wr_val_ok, "[C09] one byte on a pipe, the 8-byte value 1 on an eventfd");
	__CPROVER_assert(g_reads == 0 && g_handler_calls == 0, "[C09] posting only writes (async-signal-safe), it never runs the handler itself");
	CANARY();
}

/* ---- drain + dispatch ---------------------------------------------------------- */
void h_raw_got_event(void)
{
	v_build();
	v_er.event_rfd.fd = 6;
	/* 0 bytes or an error other than EAGAIN are fatal by design: not offered by the kernel stub */
	__CPROVER_assume(verif_in.rd_ret > 0 || (verif_in.rd_ret < 0 && verif_in.rd_errno == EAGAIN));
	iv_event_raw_got_event(&v_er);
	__CPROVER_assert(g_reads >= verif_in.rd_eintr + 1 && g_rd_fd == 6, "[C09,C15] the descriptor is read (retried when interrupted)");
	__CPROVER_assert(g_rd_n == (eventfd_in_use ? 8 : 1024), "[C09] 8 bytes from an eventfd, up to 1 KB from a pipe: a burst coalesces");
	__CPROVER_assert(g_handler_calls == (verif_in.rd_ret > 0 ? 1 : 0), "[C09] the handler runs once iff something was drained -- also when the pending data exactly fills the read buffer (a burst, a full pipe) -- and a spurious wake-up is silent; anything written afterwards re-fires the level-triggered descriptor");
	CANARY();
}
