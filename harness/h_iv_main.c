/*
 * Proof unit for iv_main (src/iv_main_posix.c)  — C07, C06, C04, C02.
 * Mode D: contract on iv_main, loop contract injected on `while (1)`,
 * iv_run_timers / iv_run_tasks / iv_fd_poll_and_run / iv_get_soonest_timeout
 * replaced by their contracts.  Ghost flags record the order of the steps.
 */
struct iv_state;
struct timespec;
extern struct iv_state *verif_st;
extern const struct timespec *verif_soonest;
extern _Bool g_polled, g_timers_ran, g_tasks_ran;
extern int g_last_ret;

#define VERIF_HAVE_IV_MAIN
#include "iv_main_posix.c"
#include "stubs/base.h"

const struct timespec *verif_soonest;
_Bool g_polled, g_timers_ran, g_tasks_ran;
int g_last_ret;

struct verif_in_t {
	int	quit;
	int	numobjs;
	_Bool	tasks_pending;
	_Bool	have_timer;
} verif_in;

static struct iv_state	v_state;
static struct timespec	v_ts;
static struct iv_list_head v_node;

/* callbacks run inside these three steps: they may call iv_quit, register and
 * unregister anything (numobjs, task list change arbitrarily) */
void iv_run_timers__contract(struct iv_state *st)
__CPROVER_requires(st == verif_st)
__CPROVER_requires(!g_timers_ran && !g_tasks_ran)
__CPROVER_requires(!g_polled || g_last_ret != 0)	/* [C04] timers are evaluated at start and whenever the poll step asks for it, not otherwise */
__CPROVER_requires(g_polled || st->quit == 0)		/* [C07,C13] a quit request from before iv_main was entered is discarded (a second iv_main after iv_quit must wait for outstanding threads and pools again) */
__CPROVER_assigns(st->quit, st->numobjs, st->tasks, g_timers_ran)
__CPROVER_ensures(g_timers_ran)
;

void iv_run_tasks__contract(struct iv_state *st)
__CPROVER_requires(st == verif_st)
__CPROVER_requires(!g_tasks_ran)
__CPROVER_requires(IFF(g_timers_ran, !g_polled || g_last_ret != 0))	/* [C04] timers were run first iff the previous poll step (or start-up) required it */
__CPROVER_assigns(st->quit, st->numobjs, st->tasks, g_timers_ran, g_tasks_ran)
__CPROVER_ensures(g_tasks_ran && !g_timers_ran)
;

const struct timespec *iv_get_soonest_timeout__contract(const struct iv_state *st)
__CPROVER_requires(st == verif_st)
__CPROVER_assigns()
__CPROVER_ensures(__CPROVER_return_value == verif_soonest)
;

int iv_fd_poll_and_run__contract(struct iv_state *st, const struct timespec *abs)
__CPROVER_requires(st == verif_st)
__CPROVER_requires(g_tasks_ran)				/* [C06,C07] timers and tasks ran in this iteration before the loop may block */
__CPROVER_requires(!st->quit && st->numobjs != 0)	/* [C07] never polls (blocks) after quit or with nothing registered */
__CPROVER_requires(st->tasks.next != &st->tasks ?
		   (abs != NULL && abs->tv_sec == 0 && abs->tv_nsec == 0) :
		   (abs == verif_soonest))		/* [C06,C04,C02] zero wait while a task is pending, else exactly the earliest timer expiry (NULL = none) */
__CPROVER_assigns(st->quit, st->numobjs, st->tasks, g_polled, g_last_ret, g_tasks_ran)
__CPROVER_ensures(g_polled && !g_tasks_ran && g_last_ret == __CPROVER_return_value)
__CPROVER_ensures(__CPROVER_return_value == 0 || __CPROVER_return_value == 1)
;

void iv_main__contract(void)
__CPROVER_requires(verif_st != NULL && !g_polled && !g_timers_ran && !g_tasks_ran)
__CPROVER_assigns(verif_st->quit, verif_st->numobjs, verif_st->tasks,
		  g_polled, g_last_ret, g_timers_ran, g_tasks_ran)
__CPROVER_ensures(verif_st->quit || verif_st->numobjs == 0)	/* [C07,C13] returns only after iv_quit or with nothing registered */
__CPROVER_ensures(g_tasks_ran && !g_timers_ran)			/* [C07] the exit test is made right after timers and tasks ran, before polling */
;

void h_iv_main(void)
{
	VERIF_IN_LOAD();
	verif_st = &v_state;
	v_state.quit = verif_in.quit;
	v_state.numobjs = verif_in.numobjs;
	if (verif_in.tasks_pending) {
		v_state.tasks.next = &v_node;
		v_state.tasks.prev = &v_node;
	} else {
		v_state.tasks.next = &v_state.tasks;
		v_state.tasks.prev = &v_state.tasks;
	}
	verif_soonest = verif_in.have_timer ? &v_ts : NULL;
	g_polled = 0;
	g_timers_ran = 0;
	g_tasks_ran = 0;
	g_last_ret = 0;
	CALL(iv_main)();
	CANARY();
}
