/*
 * Proof units for src/iv_timer.c: register / unregister glue around the
 * heap store (callees replaced by contracts), soonest timeout, init.
 * C01, C04, C05, C07, C18.  Mode D.
 *
 * The store is abstracted at the callee boundary: iv_timer_get_node(st, i)
 * returns the address of ghost slot g_slot[i] (contract proved against the
 * real radix tree in unit timer_get_node); pull_up / push_down are specified
 * by "called on this index" ghost logs here, and by the heap invariant in
 * the bounded units of h_iv_timer_heap.c.
 */
#include "iv_timer.c"
#include "stubs/base.h"

#define TM(_t)	((struct iv_timer_ *)(_t))
#define NS 6	/* ghost slots 0..5 stand for indices {.., idx, .., n, n+1}: see v_map */

struct verif_in_t {
	int	numobjs, num_timers, rat_depth;
	int	idx;			/* index of the timer under test (unregister) */
	uint8_t	exp_shape;		/* index 0: position in the expired batch */
	long	sec, nsec;
} verif_in;

static struct iv_state	v_state;
static struct iv_timer_	v_t, v_last;
static struct iv_list_head v_e1, v_e2;

/* ghost store: slot for index i is g_slot[v_map(i)] -- two distinct indices of
 * interest (the victim's and the last) get distinct slots, all others share a
 * slot that must not be written */
struct iv_timer_	*g_slot_idx, *g_slot_last, *g_slot_new, *g_slot_other;
int			g_idx, g_last;		/* the indices the named slots stand for */
int	g_getnode_calls, g_pull_calls, g_pull_index, g_push_calls, g_push_index, g_remove_calls;
struct iv_timer_ **g_pull_ptr, **g_push_ptr;

struct iv_timer_ **iv_timer_get_node__contract(struct iv_state *st, int index)
__CPROVER_requires(st == verif_st && index >= 1)
__CPROVER_assigns(g_getnode_calls)
#if defined(CASE_LAST)
__CPROVER_ensures(__CPROVER_return_value == (index == g_last ? &g_slot_idx : &g_slot_other))
#elif defined(CASE_MID)
__CPROVER_ensures(__CPROVER_return_value == (index == g_idx ? &g_slot_idx : index == g_last ? &g_slot_last : &g_slot_other))
#else
__CPROVER_ensures(__CPROVER_return_value == (index == g_last + 1 ? &g_slot_new : &g_slot_other))
#endif
;

void pull_up__contract(struct iv_state *st, int index, struct iv_timer_ **i)
__CPROVER_requires(st == verif_st && index >= 1 && index <= st->num_timers)	/* [C05] sift-up is started inside the population */
__CPROVER_requires(*i != NULL && (*i)->index == index)	/* [C05] on a slot whose back index is exact */
__CPROVER_assigns(g_pull_calls, g_pull_index, g_pull_ptr)
__CPROVER_ensures(g_pull_calls == __CPROVER_old(g_pull_calls) + 1 && g_pull_index == index && g_pull_ptr == i)
;

void push_down__contract(struct iv_state *st, int index, struct iv_timer_ **i)
__CPROVER_requires(st == verif_st && index >= 1 && index <= st->num_timers)	/* [C05] sift-down is started inside the population */
__CPROVER_requires(*i != NULL && (*i)->index == index)
__CPROVER_requires(g_pull_calls == 1 && g_pull_index == index)	/* [C05] order is restored upwards first, then downwards, on the moved element */
__CPROVER_assigns(g_push_calls, g_push_index, g_push_ptr)
__CPROVER_ensures(g_push_calls == __CPROVER_old(g_push_calls) + 1 && g_push_index == index && g_push_ptr == i)
;

/* contract of iv_timer_radix_tree_remove_level written as a stub (swapped in with
 * goto-instrument --replace-calls): dfcc's havoc of a field of the 1.3 KB
 * struct iv_state (it contains a union) is byte-wise and exhausts memory */
void verif_remove_level(struct iv_state *st)
{
	__CPROVER_assert(st == verif_st && st->rat_depth >= 1, "[C05] a level is removed only from a store that has more than one");
	__CPROVER_assert(g_slot_last == NULL, "[C05] the slot that is about to be freed has been vacated");
	st->rat_depth--;
	g_remove_calls++;
}

static void v_build(void)
{
	VERIF_IN_LOAD();
	verif_st = &v_state;
	__CPROVER_assume(verif_in.rat_depth >= 0 && verif_in.rat_depth <= 3);
	__CPROVER_assume(verif_in.num_timers >= 0 && verif_in.num_timers < (1 << 28) - 1);
	__CPROVER_assume(verif_in.numobjs >= verif_in.num_timers && verif_in.numobjs < INT_MAX);
	v_state.rat_depth = verif_in.rat_depth;
	v_state.num_timers = verif_in.num_timers;
	v_state.numobjs = verif_in.numobjs;
	v_t.expires.tv_sec = verif_in.sec;
	v_t.expires.tv_nsec = verif_in.nsec;
	v_t.index = -1;
	g_getnode_calls = g_pull_calls = g_push_calls = g_remove_calls = 0;
	g_pull_index = g_push_index = -1;
	g_idx = -5;
	g_last = verif_in.num_timers;
	g_slot_idx = NULL;
	g_slot_new = NULL;
	g_slot_other = NULL;
	g_slot_last = NULL;
	if (verif_in.num_timers > 0) {
		g_slot_last = &v_last;
		v_last.index = verif_in.num_timers;
	}
}

/* ------------------------------------------------------------------ */
void iv_timer_register__contract(struct iv_timer *_t)
__CPROVER_requires(TM(_t)->index == -1)
__CPROVER_requires(verif_st->num_timers >= 0 && verif_st->num_timers < (1 << 28) - 1 && verif_st->numobjs < INT_MAX)
__CPROVER_requires(g_last == verif_st->num_timers && g_slot_new == NULL && g_pull_calls == 0)
__CPROVER_assigns(verif_st->numobjs, verif_st->num_timers, TM(_t)->index, g_slot_new,
		  g_getnode_calls, g_pull_calls, g_pull_index, g_pull_ptr)
__CPROVER_ensures(verif_st->numobjs == __CPROVER_old(verif_st->numobjs) + 1)	/* [C07] accounting: +1 */
__CPROVER_ensures(verif_st->num_timers == __CPROVER_old(verif_st->num_timers) + 1)
__CPROVER_ensures(g_slot_new == TM(_t) && TM(_t)->index == verif_st->num_timers)	/* [C05] placed in the first free slot with an exact back index */
__CPROVER_ensures(g_pull_calls == 1 && g_pull_index == verif_st->num_timers && g_pull_ptr == &g_slot_new)	/* [C05] then sifted up from there */
__CPROVER_ensures(TM(_t)->expires.tv_sec == __CPROVER_old(TM(_t)->expires.tv_sec) && TM(_t)->expires.tv_nsec == __CPROVER_old(TM(_t)->expires.tv_nsec))
;

void h_iv_timer_register(void)
{
	v_build();
	CALL(iv_timer_register)((struct iv_timer *)&v_t);
	CANARY();
}

/* ------------------------------------------------------------------ */
#define POW128(d)	(1 << ((d) * IV_TIMER_SPLIT_BITS))

/*
 * iv_timer_unregister, index > 0 arm.  Mode S: goto-instrument --dfcc runs out
 * of memory on this function with the three callee contracts (measured: 5 GB
 * after 50 s; the same obligations as plain stubs take 0.3 s), so the callee
 * contracts above are compiled by hand into the stubs s_get_node / s_pull_up /
 * s_push_down (requires asserted, ensures executed) and swapped in with
 * goto-instrument --replace-calls; the postconditions are the assertions below.
 */
struct iv_timer_ **s_get_node(struct iv_state *st, int index)
{
	__CPROVER_assert(st == verif_st && index >= 1, "[C05] slot lookup with a valid index");
	g_getnode_calls++;
	return index == g_idx ? &g_slot_idx : index == g_last ? &g_slot_last : &g_slot_other;
}

void s_pull_up(struct iv_state *st, int index, struct iv_timer_ **i)
{
	__CPROVER_assert(st == verif_st && index >= 1 && index <= st->num_timers, "[C05] sift-up is started inside the population");
	__CPROVER_assert(*i != NULL && (*i)->index == index, "[C05] sift-up starts on a slot whose back index is exact");
	g_pull_calls++; g_pull_index = index; g_pull_ptr = i;
}

void s_push_down(struct iv_state *st, int index, struct iv_timer_ **i)
{
	__CPROVER_assert(st == verif_st && index >= 1 && index <= st->num_timers, "[C05] sift-down is started inside the population");
	__CPROVER_assert(*i != NULL && (*i)->index == index, "[C05] sift-down starts on a slot whose back index is exact");
	__CPROVER_assert(g_pull_calls == 1 && g_pull_index == index, "[C05,C04] order is restored upwards first, then downwards, on the moved element");
	g_push_calls++; g_push_index = index; g_push_ptr = i;
}

void h_iv_timer_unregister(void)
{
	int old_n, old_objs, old_depth;

	v_build();
	__CPROVER_assume(verif_in.num_timers >= 1 && verif_in.numobjs >= 1);
	__CPROVER_assume(verif_in.idx >= 1 && verif_in.idx <= verif_in.num_timers);
	g_idx = verif_in.idx;
	v_t.index = verif_in.idx;
	g_slot_idx = &v_t;
	if (g_idx == g_last)
		g_slot_last = NULL;	/* same slot: reached through g_slot_idx */
	old_n = v_state.num_timers; old_objs = v_state.numobjs; old_depth = v_state.rat_depth;

	iv_timer_unregister((struct iv_timer *)&v_t);

	__CPROVER_assert(v_t.index == -1, "[C01] the victim reads as unregistered");
	__CPROVER_assert(v_state.numobjs == old_objs - 1, "[C07] accounting: -1");
	__CPROVER_assert(v_state.num_timers == old_n - 1, "[C05] population shrinks by one");
	__CPROVER_assert(g_idx == g_last ? g_slot_idx == NULL : (g_slot_last == NULL && g_slot_idx == &v_last && v_last.index == g_idx),
			 "[C01,C05] no slot holds the victim: the last element fills the hole with an exact back index, the last slot is emptied");
	__CPROVER_assert(g_slot_other == NULL, "[C05] no other slot is written (independence)");
	__CPROVER_assert(g_idx == g_last ? (g_pull_calls == 0 && g_push_calls == 0) :
			 (g_pull_calls == 1 && g_pull_index == g_idx && g_pull_ptr == &g_slot_idx &&
			  g_push_calls == 1 && g_push_ptr == &g_slot_idx),
			 "[C05,C04] the moved element is sifted both ways (up, then down) iff something was moved");
	__CPROVER_assert(g_remove_calls == ((old_depth > 0 && old_n == POW128(old_depth)) ? 1 : 0),
			 "[C05] a level of the store is released exactly when the population drops below the capacity boundary");
	__CPROVER_assert(v_state.rat_depth == old_depth - g_remove_calls, "[C05] depth follows");
	CANARY();
}

/* ---- index 0: the timer has expired and waits in the batch of iv_run_timers --- */
void iv_timer_unregister_expired__contract(struct iv_timer *_t)
__CPROVER_requires(TM(_t)->index == 0 && WF_NODE(&TM(_t)->list_expired) && TM(_t)->list_expired.next != &TM(_t)->list_expired)
__CPROVER_assigns(TM(_t)->index, TM(_t)->list_expired, TM(_t)->list_expired.prev->next, TM(_t)->list_expired.next->prev)
__CPROVER_ensures(TM(_t)->index == -1)	/* [C01,C04] afterwards the timer reads as unregistered (it can be registered again, and a second unregister is refused), also when it was waiting in the expired batch */
__CPROVER_ensures(__CPROVER_old(TM(_t)->list_expired.prev)->next == __CPROVER_old(TM(_t)->list_expired.next) &&
		  __CPROVER_old(TM(_t)->list_expired.next)->prev == __CPROVER_old(TM(_t)->list_expired.prev))	/* [C01] an already-expired timer is unlinked from the expired batch, so its handler is not called */
__CPROVER_ensures(verif_st->numobjs == __CPROVER_old(verif_st->numobjs) && verif_st->num_timers == __CPROVER_old(verif_st->num_timers))	/* [C07] it was un-counted when it was popped */
;

void h_iv_timer_unregister_expired(void)
{
	v_build();
	__CPROVER_assume(verif_in.exp_shape <= 1);
	v_t.index = 0;
	if (verif_in.exp_shape == 0) {		/* only element of the batch */
		v_t.list_expired.next = &v_e1; v_t.list_expired.prev = &v_e1;
		v_e1.next = &v_t.list_expired; v_e1.prev = &v_t.list_expired;
	} else {
		v_t.list_expired.prev = &v_e1; v_t.list_expired.next = &v_e2;
		v_e1.next = &v_t.list_expired; v_e2.prev = &v_t.list_expired;
		v_e1.prev = &v_e2; v_e2.next = &v_e1;
	}
	CALL(iv_timer_unregister)((struct iv_timer *)&v_t);
	CANARY();
}

/* ------------------------------------------------------------------ */
void IV_TIMER_INIT__contract(struct iv_timer *_t)
__CPROVER_assigns(TM(_t)->index)
__CPROVER_ensures(TM(_t)->index == -1)
;
void h_IV_TIMER_INIT(void) { v_build(); v_t.index = verif_in.idx; CALL(IV_TIMER_INIT)((struct iv_timer *)&v_t); CANARY(); }

int iv_timer_registered__contract(const struct iv_timer *_t)
__CPROVER_assigns()
__CPROVER_ensures(__CPROVER_return_value == (TM(_t)->index != -1))
;
void h_iv_timer_registered(void) { int r; v_build(); v_t.index = verif_in.idx; r = CALL(iv_timer_registered)((struct iv_timer *)&v_t); CANARY(); }
