/*
 * Bounded unit for iv_run_tasks (src/iv_task.c) with a most general client
 * (DESIGN 2.4): NT heap-allocated tasks, any subset registered, each handler
 * invocation performs a nondeterministic choice of real API calls on every
 * task (register / unregister / free-if-unregistered).  C01, C06, C07, C18.
 * Mode S: the obligations are the assertions below; the loop is unwound
 * NT+1 times with an unwinding assertion (complete for NT tasks because a
 * task runs at most once per round).
 */
#include "iv_task.c"
#include "stubs/base.h"

#ifndef NT
#define NT 2
#endif

struct verif_in_t {
	int		numobjs;
	uint32_t	epoch_st;
	uint32_t	epoch[NT];
	_Bool		pending[NT];
	uint8_t		order;
	uint8_t		act[NT][NT];	/* [call number][task] */
} verif_in;

static struct iv_state	v_state;
static struct iv_task_	*v_t[NT];
static int		g_pending[NT];	/* registered and not yet run */
static int		g_runs[NT];
static _Bool		g_freed[NT];
static int		g_calls;
static int		g_expected;

static void mgc_task(void *cookie)
{
	int i = (int)(intptr_t)cookie;
	int j;

	__CPROVER_assert(i >= 0 && i < NT, "[C03,C06] handler called with the task's own cookie");
	__CPROVER_assert(!g_freed[i], "[C01] no handler call for a freed (unregistered) task");
	__CPROVER_assert(g_pending[i] == 1, "[C06,C01] handler runs only for a live registration that has not run yet");
	g_pending[i] = 0;
	g_runs[i]++;
	g_expected--;
	__CPROVER_assert(!iv_task_registered((struct iv_task *)v_t[i]), "[C06,C01] task is already unregistered on entry to its handler");
	__CPROVER_assert(v_t[i]->epoch == v_state.task_epoch, "[C06,C02] task is stamped with the current round before its handler");
	__CPROVER_assert(v_state.numobjs == g_expected, "[C07] object count is exact at handler entry");
	__CPROVER_assert(v_state.tasks_current != NULL, "[C06] a round is marked as running during handlers");

	if (g_calls < NT) {
		for (j = 0; j < NT; j++) {
			uint8_t a = verif_in.act[g_calls][j];

			if (g_freed[j])
				continue;
			if (a == 1 && !iv_task_registered((struct iv_task *)v_t[j])) {
				iv_task_register((struct iv_task *)v_t[j]);
				g_pending[j] = 1;
				g_expected++;
			} else if (a == 2 && iv_task_registered((struct iv_task *)v_t[j])) {
				iv_task_unregister((struct iv_task *)v_t[j]);
				g_pending[j] = 0;
				g_expected--;
			} else if (a == 3 && !iv_task_registered((struct iv_task *)v_t[j])) {
				free(v_t[j]);		/* the caller may free it immediately */
				g_freed[j] = 1;
			}
		}
	}
	g_calls++;
}

void h_iv_run_tasks(void)
{
	int i, k;

	VERIF_IN_LOAD();
	verif_st = &v_state;
	__CPROVER_assume(verif_in.numobjs >= 0 && verif_in.numobjs < 1000);
	/* assumption: the 32-bit round counter does not wrap within the run */
	__CPROVER_assume(verif_in.epoch_st < UINT32_MAX);
	v_state.numobjs = verif_in.numobjs;
	v_state.task_epoch = verif_in.epoch_st;
	v_state.tasks_current = NULL;
	iv_task_init(&v_state);
	for (i = 0; i < NT; i++) {
		v_t[i] = malloc(sizeof(struct iv_task_));
		__CPROVER_assume(v_t[i] != NULL);
		v_t[i]->cookie = (void *)(intptr_t)i;
		v_t[i]->handler = mgc_task;
		v_t[i]->list.next = &v_t[i]->list;
		v_t[i]->list.prev = &v_t[i]->list;
		__CPROVER_assume(verif_in.epoch[i] <= verif_in.epoch_st);
		v_t[i]->epoch = verif_in.epoch[i];
	}
	/* registration order: forward or backward */
	for (k = 0; k < NT; k++) {
		i = (verif_in.order & 1) ? NT - 1 - k : k;
		if (verif_in.pending[i]) {
			iv_task_register((struct iv_task *)v_t[i]);
			g_pending[i] = 1;
		}
	}
	g_expected = v_state.numobjs;

	iv_run_tasks(&v_state);

	__CPROVER_assert(v_state.tasks_current == NULL, "[C06] no round is marked running after iv_run_tasks");
	__CPROVER_assert(v_state.numobjs == g_expected, "[C07] object count exact after the round (auto-unregister of every task that ran)");
	for (i = 0; i < NT; i++) {
		__CPROVER_assert(g_runs[i] <= 1, "[C06,C02] a task runs at most once per round: a task that re-registers itself is deferred past the next kernel poll, so ready descriptors, timers and events are still serviced");
		if (g_freed[i])
			continue;
		__CPROVER_assert(IFF(g_pending[i], iv_task_registered((struct iv_task *)v_t[i])), "[C06] registered afterwards iff a registration is still owed a run");
		__CPROVER_assert(IMPLIES(g_pending[i], g_runs[i] == 1), "[C06] only a task that already ran in this round is deferred to the next; every other registration ran before the loop can sleep");
		__CPROVER_assert(IMPLIES(g_pending[i], v_t[i]->list.next != NULL), "[C06] deferred task is linked");
	}
	CANARY();
}
