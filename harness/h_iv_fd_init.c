/*
 * Units for poll-method selection in src/iv_fd.c (C15): iv_fd_init,
 * iv_fd_init_first_thread, consider_poll_method, method_is_excluded.
 * The four Linux method objects are stubs whose init hooks succeed or fail
 * nondeterministically; getenv returns one of a few concrete exclusion
 * strings; sscanf("%63s%n") is a small trusted tokenizer.  Mode S, bounded
 * by the length of the exclusion strings.
 */
#include <fcntl.h>
int verif_fcntl(int fd, int cmd, int arg);
#define fcntl(fd, cmd, ...)	verif_fcntl(fd, cmd, __VA_ARGS__ + 0)
#include <stdio.h>
int verif_sscanf(const char *s, const char *fmt, char *out, int *len);
#define sscanf(s, fmt, out, len)	verif_sscanf(s, fmt, out, len)
#include "iv_fd.c"
#undef fcntl
#undef sscanf
#include "stubs/base.h"

struct verif_in_t {
	_Bool	ok[4];		/* init outcome of epoll-timerfd, epoll, ppoll, poll */
	uint8_t	excl;		/* which exclusion string the environment holds */
	_Bool	setuid;		/* effective uid differs from real uid */
	_Bool	later_thread;
	uint8_t	cur;		/* method already chosen (later threads) */
} verif_in;

static struct iv_state v_state;
static int g_init_calls[4], g_order, g_init_at[4];

int verif_fcntl(int fd, int cmd, int arg) { return 0; }
static int init_k(int k) { g_init_calls[k]++; g_init_at[k] = ++g_order; return verif_in.ok[k] ? 0 : -1; }
static int init0(struct iv_state *st) { return init_k(0); }
static int init1(struct iv_state *st) { return init_k(1); }
static int init2(struct iv_state *st) { return init_k(2); }
static int init3(struct iv_state *st) { return init_k(3); }
const struct iv_fd_poll_method iv_fd_poll_method_epoll_timerfd = { .name = "epoll-timerfd", .init = init0 };
const struct iv_fd_poll_method iv_fd_poll_method_epoll = { .name = "epoll", .init = init1 };
const struct iv_fd_poll_method iv_fd_poll_method_ppoll = { .name = "ppoll", .init = init2 };
const struct iv_fd_poll_method iv_fd_poll_method_poll = { .name = "poll", .init = init3 };
static const struct iv_fd_poll_method *const v_m[4] = { &iv_fd_poll_method_epoll_timerfd, &iv_fd_poll_method_epoll, &iv_fd_poll_method_ppoll, &iv_fd_poll_method_poll };

static const char *const v_excl[6] = { NULL, "", "epoll", "epoll-timerfd epoll", " ppoll  epoll-timerfd", "epoll-timerfd epoll ppoll" };
/* which methods each string excludes */
static const _Bool v_x[6][4] = { {0,0,0,0}, {0,0,0,0}, {0,1,0,0}, {1,1,0,0}, {1,0,1,0}, {1,1,1,0} };

#ifndef EXCL
#define EXCL 3
#endif
char *STUB(getenv)(const char *n) { return (char *)v_excl[EXCL]; }
uid_t STUB(geteuid)(void) { return verif_in.setuid ? 0 : 1000; }
uid_t STUB(getuid)(void) { return 1000; }
__sighandler_t STUB(signal)(int s, __sighandler_t h) { return SIG_DFL; }
int STUB(getrlimit)(__rlimit_resource_t r, struct rlimit *l) { l->rlim_cur = 1024; l->rlim_max = 1024; return 0; }
int STUB(setrlimit)(__rlimit_resource_t r, const struct rlimit *l) { return 0; }
int STUB(setsockopt)(int fd, int level, int optname, const void *optval, socklen_t optlen) { return 0; }

/* contract of sscanf(s, "%63s%n", out, &len): skip white space, copy one word, report the
 * number of characters consumed; <= 0 if there is no word */
int verif_sscanf(const char *s, const char *fmt, char *out, int *len)
{
	int i = 0, j = 0;

	while (s[i] == ' ' && i < 40)
		i++;
	if (s[i] == '\0')
		return -1;
	while (s[i] != ' ' && s[i] != '\0' && j < 63 && i < 40)
		out[j++] = s[i++];
	out[j] = '\0';
	*len = i;
	return 1;
}

void h_fd_init(void)
{
	int k, expect = -1;

	VERIF_IN_LOAD();
	verif_st = &v_state;
	__CPROVER_assume(verif_in.excl == EXCL && verif_in.cur < 4);
	if (verif_in.later_thread) {
		method = v_m[verif_in.cur];
		__CPROVER_assume(verif_in.ok[verif_in.cur]);	/* otherwise fatal by design */
		iv_fd_init(&v_state);
		__CPROVER_assert(method == v_m[verif_in.cur], "[C15] later threads use the method the first thread selected");
		for (k = 0; k < 4; k++)
			__CPROVER_assert(g_init_calls[k] == (k == verif_in.cur ? 1 : 0), "[C15] and initialise only that method");
	} else {
		int ex = verif_in.setuid ? 0 : EXCL;	/* the exclusion list is ignored in a set-uid program */

		method = NULL;
		for (k = 0; k < 4; k++)
			if (expect < 0 && !v_x[ex][k] && verif_in.ok[k])
				expect = k;
		__CPROVER_assume(expect >= 0);	/* no usable method is fatal by design */
		iv_fd_init(&v_state);
		__CPROVER_assert(method == v_m[expect], "[C15] the first method, in order of preference, that is not excluded through the environment and whose initialisation succeeds is selected");
		for (k = 0; k < 4; k++) {
			__CPROVER_assert(IMPLIES(v_x[ex][k], g_init_calls[k] == 0), "[C15] an excluded method is never initialised");
			__CPROVER_assert(IMPLIES(k > expect, g_init_calls[k] == 0), "[C15] nothing after the selected method is touched");
			__CPROVER_assert(g_init_calls[k] <= 1, "[C15] each candidate is tried at most once");
		}
	}
	__CPROVER_assert(v_state.handled_fd == NULL, "[C01] no descriptor is being dispatched initially");
	CANARY();
}
