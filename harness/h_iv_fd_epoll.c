/*
 * Proof units for src/iv_fd_epoll.c (epoll and epoll-timerfd methods) against
 * the ghost kernel of stubs/epoll_model.h.  C01, C02, C03, C04, C07, C08, C15, C18.
 *
 * syscall() is variadic: routed to a 3-argument stub by a macro (dfcc cannot
 * pass write sets through variadic calls); the only textual deviation.
 */
#include <unistd.h>
#include <sys/syscall.h>
long verif_syscall(long nr, long a, long b);
#define VERIF_SYS3(nr, a, b, ...)	verif_syscall(nr, a, b)
#define syscall(...)			VERIF_SYS3(__VA_ARGS__, 0, 0)
#include "iv_fd_epoll.c"
#undef syscall
#include "stubs/base.h"
#include "stubs/lock.h"
#include "stubs/epoll_model.h"

#define EMASK(b)	((((b) & MASKIN) ? EPOLLIN : 0) | (((b) & MASKOUT) ? EPOLLOUT : 0))

struct verif_in_t {
	uint8_t	rb, wb;		/* registered_bands / wanted_bands of the fd under test */
	uint8_t	rb2, wb2;	/* second fd (flush_pending) */
	uint8_t	notify_shape;	/* 0 not queued, 1 only element, 2 between nodes */
	uint8_t	eintr;
	int	fdnum;
	int	bits;
	/* wait */
	_Bool	abs_present;
	long	abs_sec, abs_nsec, now_sec, now_nsec, clk_sec, clk_nsec;
	int	time_valid;
	int	pwait2_support;
	int	w_ret, w_errno, w2_ret, w2_errno;
	int	numfds;
} verif_in;

static struct iv_state	v_state;
static struct iv_fd_	v_fd, v_fd2;
static struct iv_list_head v_n1, v_n2;
const struct iv_fd_poll_method *method;

/* E(fd): the kernel's interest in the descriptor matches registered_bands */
#define KERNEL_MATCHES(slot, f, bands)						\
	((bands) ? (k_ep[slot].present && k_ep[slot].events == (uint32_t)EMASK(bands) && k_ep[slot].ptr == (void *)(f)) \
		 : !k_ep[slot].present)

static void v_build(void)
{
	VERIF_IN_LOAD();
	verif_st = &v_state;
	__CPROVER_assume(verif_in.rb <= 7 && verif_in.wb <= 7 && verif_in.rb2 <= 7 && verif_in.wb2 <= 7);
	__CPROVER_assume(verif_in.notify_shape <= 2 && verif_in.eintr <= 2);
	__CPROVER_assume(verif_in.fdnum >= 0 && verif_in.fdnum < 1000000);
	k_epfd = 3;
	v_state.u.epoll.epoll_fd = k_epfd;
	v_state.u.epoll.timer_fd = -1;
	INIT_IV_LIST_HEAD(&v_state.u.epoll.notify);
	k_fdnum[0] = verif_in.fdnum;
	k_fdnum[1] = verif_in.fdnum + 1;
	k_fdnum[2] = -7;
	k_eintr_budget = verif_in.eintr;
	k_ctl_calls = 0;
	k_ctl_bad = 0;
	k_ctl_refuse = 0;

	v_fd.fd = verif_in.fdnum;
	v_fd.registered = 1;
	v_fd.registered_bands = verif_in.rb;
	v_fd.wanted_bands = verif_in.wb;
	k_ep[0].present = verif_in.rb != 0;
	k_ep[0].events = EMASK(verif_in.rb);
	k_ep[0].ptr = &v_fd;
	v_fd2.fd = verif_in.fdnum + 1;
	v_fd2.registered = 1;
	v_fd2.registered_bands = verif_in.rb2;
	v_fd2.wanted_bands = verif_in.wb2;
	k_ep[1].present = verif_in.rb2 != 0;
	k_ep[1].events = EMASK(verif_in.rb2);
	k_ep[1].ptr = &v_fd2;
	k_ep[2].present = 0;
	INIT_IV_LIST_HEAD(&v_fd2.list_notify);

	if (verif_in.notify_shape == 0) {
		INIT_IV_LIST_HEAD(&v_fd.list_notify);
	} else if (verif_in.notify_shape == 1) {
		v_fd.list_notify.next = &v_state.u.epoll.notify;
		v_fd.list_notify.prev = &v_state.u.epoll.notify;
		v_state.u.epoll.notify.next = &v_fd.list_notify;
		v_state.u.epoll.notify.prev = &v_fd.list_notify;
	} else {
		v_fd.list_notify.prev = &v_n1;
		v_fd.list_notify.next = &v_n2;
		v_n1.next = &v_fd.list_notify;
		v_n2.prev = &v_fd.list_notify;
		v_n1.prev = &v_state.u.epoll.notify;
		v_state.u.epoll.notify.next = &v_n1;
		v_n2.next = &v_state.u.epoll.notify;
		v_state.u.epoll.notify.prev = &v_n2;
	}
}

/* ------------------------------------------------------------------ */
int bits_to_poll_mask__contract(int bits)
__CPROVER_assigns()
__CPROVER_ensures(__CPROVER_return_value == EMASK(bits))	/* [C02,C03] band to kernel-mask mapping (the error band needs no kernel bit: ERR/HUP are always reported) */
;
void h_bits_to_poll_mask(void)
{
	int r;
	VERIF_IN_LOAD();
	r = CALL(bits_to_poll_mask)(verif_in.bits);
	CANARY();
}

/* ------------------------------------------------------------------ */
#define UNLINKED(f)	((f)->list_notify.next == &(f)->list_notify && (f)->list_notify.prev == &(f)->list_notify)

int __iv_fd_epoll_flush_one__contract(struct iv_state *st, struct iv_fd_ *fd)
__CPROVER_requires(st == verif_st && fd == &v_fd && fd->fd == k_fdnum[0] && st->u.epoll.epoll_fd == k_epfd)
__CPROVER_requires(WF_NODE(&fd->list_notify))
__CPROVER_requires(KERNEL_MATCHES(0, fd, fd->registered_bands))
__CPROVER_requires(k_ctl_bad == 0 && k_eintr_budget >= 0 && k_eintr_budget <= 2)
__CPROVER_assigns(fd->list_notify, fd->list_notify.prev->next, fd->list_notify.next->prev,
		  fd->registered_bands, k_ep[0], k_eintr_budget, k_ctl_calls, k_ctl_bad, verif_errno)
__CPROVER_ensures(__CPROVER_return_value == 0)	/* [C02,C03] with a well-behaved kernel the right one of ADD/MOD/DEL was chosen (a wrong choice gets EEXIST/ENOENT) and EINTR was retried */
__CPROVER_ensures(k_ctl_bad == 0)
__CPROVER_ensures(fd->registered_bands == fd->wanted_bands && KERNEL_MATCHES(0, fd, fd->wanted_bands))	/* [C02,C01,C03] afterwards the kernel's interest equals the wanted bands; in particular no entry (no stale pointer that could later report events for a reused struct) when nothing is wanted */
__CPROVER_ensures(UNLINKED(fd))	/* [C01,C18] off the pending-update list */
__CPROVER_ensures(__CPROVER_old(fd->list_notify.next) == &fd->list_notify ||
	(__CPROVER_old(fd->list_notify.prev)->next == __CPROVER_old(fd->list_notify.next) &&
	 __CPROVER_old(fd->list_notify.next)->prev == __CPROVER_old(fd->list_notify.prev)))
__CPROVER_ensures(fd->wanted_bands == __CPROVER_old(fd->wanted_bands))
;
void h_flush_one(void)
{
	int r;
	v_build();
	r = CALL(__iv_fd_epoll_flush_one)(&v_state, &v_fd);
	CANARY();
}

/* ------------------------------------------------------------------ */
void iv_fd_epoll_notify_fd__contract(struct iv_state *st, struct iv_fd_ *fd)
__CPROVER_requires(st == verif_st && WF_NODE(&fd->list_notify) && WF_NODE(&st->u.epoll.notify))
__CPROVER_assigns(fd->list_notify, fd->list_notify.prev->next, fd->list_notify.next->prev,
		  st->u.epoll.notify.prev, st->u.epoll.notify.prev->next, st->u.epoll.notify.next)
__CPROVER_ensures(IMPLIES(fd->registered_bands != fd->wanted_bands,
	fd->list_notify.next == &st->u.epoll.notify && st->u.epoll.notify.prev == &fd->list_notify))	/* [C02,C01,C03] a change of wanted bands (also the drop to nothing at unregister) is queued, so that the flush / the synchronous unregister push it to the kernel */
__CPROVER_ensures(IMPLIES(fd->registered_bands == fd->wanted_bands, UNLINKED(fd)))	/* [C02,C01,C03] off the list only when kernel and wanted bands agree */
__CPROVER_ensures(fd->registered_bands == __CPROVER_old(fd->registered_bands) && fd->wanted_bands == __CPROVER_old(fd->wanted_bands))
;
void h_notify_fd(void)
{
	v_build();
	CALL(iv_fd_epoll_notify_fd)(&v_state, &v_fd);
	CANARY();
}

/* ------------------------------------------------------------------ */
void iv_fd_epoll_unregister_fd__contract(struct iv_state *st, struct iv_fd_ *fd)
__CPROVER_requires(st == verif_st && fd == &v_fd && fd->fd == k_fdnum[0] && st->u.epoll.epoll_fd == k_epfd)
__CPROVER_requires(WF_NODE(&fd->list_notify) && fd->wanted_bands == 0)
__CPROVER_requires(KERNEL_MATCHES(0, fd, fd->registered_bands))
__CPROVER_requires(IMPLIES(UNLINKED(fd), fd->registered_bands == fd->wanted_bands))
__CPROVER_requires(k_ctl_bad == 0 && k_eintr_budget >= 0 && k_eintr_budget <= 2)
__CPROVER_assigns(fd->list_notify, fd->list_notify.prev->next, fd->list_notify.next->prev,
		  fd->registered_bands, k_ep[0], k_eintr_budget, k_ctl_calls, k_ctl_bad, verif_errno)
__CPROVER_ensures(!k_ep[0].present && fd->registered_bands == 0)	/* [C01,C03,C18] the kernel holds no entry for the fd any more: no later event can carry the stale pointer */
__CPROVER_ensures(UNLINKED(fd) && k_ctl_bad == 0)	/* [C01,C18] and it is on no pending-update list */
;
void h_unregister_fd(void)
{
	v_build();
	__CPROVER_assume(verif_in.wb == 0);
	__CPROVER_assume(verif_in.notify_shape != 0 || verif_in.rb == verif_in.wb);
	CALL(iv_fd_epoll_unregister_fd)(&v_state, &v_fd);
	CANARY();
}

/* ------------------------------------------------------------------ */
/* flush before every wait: two descriptors queued in either order (bounded) */
void h_flush_pending(void)
{
	v_build();
	INIT_IV_LIST_HEAD(&v_state.u.epoll.notify);
	INIT_IV_LIST_HEAD(&v_fd.list_notify);
	/* per-fd invariant: off the list => kernel agrees with the wanted bands */
	if (verif_in.notify_shape == 0) {
		__CPROVER_assume(verif_in.rb == verif_in.wb);
	} else {
		iv_list_add_tail(&v_fd.list_notify, &v_state.u.epoll.notify);
	}
	if (verif_in.eintr & 1)
		iv_list_add_tail(&v_fd2.list_notify, &v_state.u.epoll.notify);
	else
		__CPROVER_assume(verif_in.rb2 == verif_in.wb2);
	k_eintr_budget = verif_in.eintr >> 1;

	iv_fd_epoll_flush_pending(&v_state);

	__CPROVER_assert(iv_list_empty(&v_state.u.epoll.notify), "[C02] no kernel update is left pending when the wait starts");
	__CPROVER_assert(KERNEL_MATCHES(0, &v_fd, v_fd.wanted_bands) && v_fd.registered_bands == v_fd.wanted_bands,
			 "[C02] at wait time the kernel's interest in every descriptor equals its wanted bands (fd 1)");
	__CPROVER_assert(KERNEL_MATCHES(1, &v_fd2, v_fd2.wanted_bands) && v_fd2.registered_bands == v_fd2.wanted_bands,
			 "[C02] at wait time the kernel's interest in every descriptor equals its wanted bands (fd 2)");
	__CPROVER_assert(k_ctl_bad == 0, "[C02] every epoll_ctl was accepted by the kernel");
	CANARY();
}

/* ------------------------------------------------------------------ */
/* iv_fd_epoll_wait: timeout handed to the kernel, pwait2 -> wait fallback */
static int g_pwait2_calls, g_wait_calls;
static _Bool g_pw_to_null; static struct timespec g_pw_to;
static int g_w_ms;
static int g_clock_reads;
static struct epoll_event v_events[4];

void iv_time_get(struct timespec *t)
{
	g_clock_reads++;
	t->tv_sec = verif_in.clk_sec;
	t->tv_nsec = verif_in.clk_nsec;
}

int STUB(epoll_pwait2)(int epfd, struct epoll_event *ev, int max, const struct timespec *to, const sigset_t *ss)
{
	__CPROVER_assert(epfd == k_epfd && ev == v_events && max == 4 && ss == NULL, "epoll_pwait2 arguments passed through");
	g_pwait2_calls++;
	g_pw_to_null = (to == NULL);
	if (to != NULL)
		g_pw_to = *to;
	if (verif_in.w2_ret < 0)
		verif_errno = verif_in.w2_errno;
	return verif_in.w2_ret;
}

int STUB(epoll_wait)(int epfd, struct epoll_event *ev, int max, int ms)
{
	__CPROVER_assert(epfd == k_epfd && ev == v_events && max == 4, "epoll_wait arguments passed through");
	g_wait_calls++;
	g_w_ms = ms;
	if (verif_in.w_ret < 0)
		verif_errno = verif_in.w_errno;
	return verif_in.w_ret;
}

/* rel == max(0, abs - now), stated with additions only (DESIGN A.9) */
#define REL_IS(rel, abs, now)								\
	(timespec_gt(abs, now) ?							\
	 ((rel)->tv_nsec >= 0 && (rel)->tv_nsec < 1000000000 &&			\
	  ((now)->tv_nsec + (rel)->tv_nsec < 1000000000 ?				\
	   ((now)->tv_nsec + (rel)->tv_nsec == (abs)->tv_nsec && (now)->tv_sec + (rel)->tv_sec == (abs)->tv_sec) : \
	   ((now)->tv_nsec + (rel)->tv_nsec - 1000000000 == (abs)->tv_nsec && (now)->tv_sec + (rel)->tv_sec + 1 == (abs)->tv_sec))) : \
	 ((rel)->tv_sec == 0 && (rel)->tv_nsec == 0))

void h_epoll_wait(void)
{
	struct timespec abs, now;
	int r;

	v_build();
	__CPROVER_assume(verif_in.abs_nsec >= 0 && verif_in.abs_nsec < 1000000000 && verif_in.abs_sec >= 0 && verif_in.abs_sec < (1L << 40));
	__CPROVER_assume(verif_in.now_nsec >= 0 && verif_in.now_nsec < 1000000000 && verif_in.now_sec >= 0 && verif_in.now_sec < (1L << 40));
	__CPROVER_assume(verif_in.clk_nsec >= 0 && verif_in.clk_nsec < 1000000000 && verif_in.clk_sec >= 0 && verif_in.clk_sec < (1L << 40));
	__CPROVER_assume(verif_in.pwait2_support == 0 || verif_in.pwait2_support == 1);
	__CPROVER_assume(verif_in.time_valid == 0 || verif_in.time_valid == 1);
	__CPROVER_assume(verif_in.w_ret >= -1 && verif_in.w_ret <= 4 && verif_in.w2_ret >= -1 && verif_in.w2_ret <= 4);
	abs.tv_sec = verif_in.abs_sec; abs.tv_nsec = verif_in.abs_nsec;
	v_state.time.tv_sec = verif_in.now_sec; v_state.time.tv_nsec = verif_in.now_nsec;
	v_state.time_valid = verif_in.time_valid;
	epoll_pwait2_support = verif_in.pwait2_support;

	r = iv_fd_epoll_wait(&v_state, v_events, 4, verif_in.abs_present ? &abs : NULL);

	now = v_state.time;
	if (verif_in.abs_present) {
		__CPROVER_assert(v_state.time_valid == 1, "[C04] the loop clock is valid after computing a relative timeout");
		__CPROVER_assert(IMPLIES(verif_in.time_valid, g_clock_reads == 0 && now.tv_sec == verif_in.now_sec && now.tv_nsec == verif_in.now_nsec), "[C04] a valid cached clock is not re-read");
		__CPROVER_assert(IMPLIES(!verif_in.time_valid, g_clock_reads == 1 && now.tv_sec == verif_in.clk_sec && now.tv_nsec == verif_in.clk_nsec), "[C04] an invalidated clock is read once");
	}
	if (verif_in.pwait2_support) {
		__CPROVER_assert(g_pwait2_calls == 1, "[C15] nanosecond wait is tried first");
		__CPROVER_assert(IFF(g_pw_to_null, !verif_in.abs_present), "[C04] unbounded wait iff there is no deadline");
		__CPROVER_assert(IMPLIES(verif_in.abs_present, REL_IS(&g_pw_to, &abs, &now)), "[C04] kernel timeout is exactly max(0, deadline - now): never beyond the deadline");
	}
	if (!verif_in.pwait2_support || (verif_in.w2_ret < 0 && (verif_in.w2_errno == ENOSYS || verif_in.w2_errno == EPERM))) {
		__CPROVER_assert(g_wait_calls == 1, "[C15] epoll_pwait2 missing or forbidden: the same wait is done with epoll_wait");
		__CPROVER_assert(epoll_pwait2_support == 0, "[C15] the fallback is remembered");
		__CPROVER_assert(r == verif_in.w_ret, "[C15] result of the fallback wait is returned");
		__CPROVER_assert(IFF(g_w_ms == -1, !verif_in.abs_present), "[C04] unbounded wait iff there is no deadline");
		/* the value is the one to_msec() computes from the deadline and the loop clock
		 * (to_msec itself is specified and proved in unit time_to_msec) */
		__CPROVER_assert(g_w_ms == to_msec(&v_state, verif_in.abs_present ? &abs : NULL), "[C04] millisecond timeout is to_msec(deadline) at the loop clock");
	} else {
		__CPROVER_assert(g_wait_calls == 0 && r == verif_in.w2_ret, "[C15] otherwise the nanosecond wait's result is returned as is");
	}
	CANARY();
}

/* ---- synchronous probe (iv_fd_register_try): the kernel may refuse the descriptor -------- */
void h_notify_fd_sync_refused(void)
{
	int r;

	v_build();
	__CPROVER_assume(verif_in.rb == 0 && verif_in.wb != 0 && verif_in.notify_shape == 0);
	k_fdnum[0] = -7;	/* the kernel does not accept this descriptor (EBADF / EPERM: regular file, closed fd) */
	r = iv_fd_epoll_notify_fd_sync(&v_state, &v_fd);
	__CPROVER_assert(r < 0, "[C07,C15] a descriptor the kernel refuses makes the synchronous registration fail (after retrying EINTR)");
	__CPROVER_assert(v_fd.registered_bands == 0 && UNLINKED(&v_fd), "[C07,C01] nothing is recorded as registered with the kernel and the fd is on no pending list, so the failed try can be rolled back completely");
	iv_fd_epoll_unregister_fd(&v_state, &v_fd);
	__CPROVER_assert(k_ctl_calls == verif_in.eintr + 1, "[C07] the roll-back issues no further kernel call");
	CANARY();
}

/* ---- synchronous probe on a descriptor number that ANOTHER registered iv_fd owns --------- */
void h_notify_fd_sync_owned(void)
{
	int r;
	struct k_entry before;

	v_build();
	__CPROVER_assume(verif_in.rb == 0 && verif_in.wb != 0 && verif_in.notify_shape == 0 && verif_in.rb2 != 0);
	/* v_fd2 is registered on the same descriptor number and the kernel knows it */
	v_fd2.fd = verif_in.fdnum;
	k_ep[0].present = 1;
	k_ep[0].events = EMASK(verif_in.rb2);
	k_ep[0].ptr = &v_fd2;
	k_ep[1].present = 0;
	before = k_ep[0];
	r = iv_fd_epoll_notify_fd_sync(&v_state, &v_fd);
	__CPROVER_assert(r < 0, "[C02,C07] a second registration of a descriptor number that a registered iv_fd owns is refused (the kernel says EEXIST)");
	__CPROVER_assert(k_ep[0].present && k_ep[0].events == before.events && k_ep[0].ptr == (void *)&v_fd2,
			 "[C02,C03] the kernel interest of the iv_fd that owns the descriptor is left exactly as it was: its readiness is neither lost nor redirected to another object");
	__CPROVER_assert(v_fd.registered_bands == 0 && UNLINKED(&v_fd), "[C07,C01] nothing is recorded as registered for the refused iv_fd");
	__CPROVER_assert(v_fd2.registered_bands == verif_in.rb2 && v_fd2.wanted_bands == verif_in.wb2, "[C02] the owner's bookkeeping is untouched");
	CANARY();
}

