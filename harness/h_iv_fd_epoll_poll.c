/*
 * Bounded units for iv_fd_epoll_poll / iv_fd_epoll_timerfd_poll
 * (src/iv_fd_epoll.c): translation of at most NE kernel events into ready
 * bands, kick and timer entries, EINTR, clock invalidation, return value.
 * iv_fd_make_ready (src/iv_fd.c) is replaced by its contract as a ghost log
 * (DESIGN A.6); iv_event_run_pending_events is a counter.
 * C03, C04, C08, C15, C02, C18.  Mode S.
 */
#include <unistd.h>
#include <sys/syscall.h>
long verif_syscall(long nr, long a, long b);
#define VERIF_SYS3(nr, a, b, ...)	verif_syscall(nr, a, b)
#define syscall(...)			VERIF_SYS3(__VA_ARGS__, 0, 0)
#include "iv_fd_epoll.c"
#undef syscall
#include "stubs/base.h"
#include "stubs/lock.h"
#include "stubs/epoll_model.h"

#ifndef NE
#define NE 2
#endif

struct verif_in_t {
	int		n;		/* events returned by the kernel, or -1 */
	uint8_t		kind[NE];	/* 0,1: descriptor 0/1   2: cross-thread kick   3: timer descriptor */
	uint32_t	events[NE];
	_Bool		abs_present;
	long		abs_sec, abs_nsec, now_sec, now_nsec;
	int		time_valid;
	int		pwait2;
	int		numfds;
	uint8_t		rb0, wb0;	/* descriptor 0: kernel-registered / wanted bands before the wait */
} verif_in;

static struct iv_state	v_state;
static struct iv_fd_	v_fd[2];
static struct iv_list_head v_active;
const struct iv_fd_poll_method *method;

static int	g_mr[2], g_mr_bad, g_run_events, g_timer_reads, g_waits;

long verif_syscall(long nr, long a, long b) { return -1; }

static int g_mr_after_events;
void iv_fd_make_ready(struct iv_list_head *active, struct iv_fd_ *fd, int bands)
{
	if (g_run_events)
		g_mr_after_events++;
	if (active != &v_active || (bands != MASKIN && bands != MASKOUT && bands != MASKERR))
		g_mr_bad++;
	else if (fd == &v_fd[0])
		g_mr[0] |= bands;
	else if (fd == &v_fd[1])
		g_mr[1] |= bands;
	else
		g_mr_bad++;		/* e.g. the kick or timer entry treated as a descriptor */
}

void iv_event_run_pending_events(void) { g_run_events++; }
void iv_time_get(struct timespec *t) { t->tv_sec = verif_in.now_sec; t->tv_nsec = verif_in.now_nsec; }
void iv_fd_set_cloexec(int fd) { }

ssize_t STUB(read)(int fd, void *buf, size_t n)
{
	__CPROVER_assert(fd == v_state.u.epoll.timer_fd && n == 8, "[C04] only the timer descriptor is read, 8 bytes");
	g_timer_reads++;
	return 8;
}

static int g_wait_with_pending, g_wait_kernel_stale;
static int fill(struct epoll_event *ev, int max)
{
	int i;

	g_waits++;
	/* C02: at the moment the thread goes to sleep no kernel update is pending */
	if (!iv_list_empty(&v_state.u.epoll.notify))
		g_wait_with_pending++;
	if (v_fd[0].registered_bands != v_fd[0].wanted_bands || (v_fd[0].wanted_bands && !k_ep[0].present))
		g_wait_kernel_stale++;
	if (verif_in.n < 0) {
		verif_errno = EINTR;	/* any other error is fatal by design */
		return -1;
	}
	__CPROVER_assert(verif_in.n <= max, "kernel returns at most maxevents");
	for (i = 0; i < NE; i++) {
		if (i >= verif_in.n)
			break;
		ev[i].events = verif_in.events[i];
		ev[i].data.ptr = verif_in.kind[i] == 0 ? (void *)&v_fd[0] :
				 verif_in.kind[i] == 1 ? (void *)&v_fd[1] :
				 verif_in.kind[i] == 2 ? (void *)&v_state : (void *)&v_state.time;
	}
	return verif_in.n;
}

int STUB(epoll_pwait2)(int epfd, struct epoll_event *ev, int max, const struct timespec *to, const sigset_t *ss)
{
	__CPROVER_assert(epfd == v_state.u.epoll.epoll_fd, "wait on this thread's epoll descriptor");
	return fill(ev, max);
}

int STUB(epoll_wait)(int epfd, struct epoll_event *ev, int max, int ms)
{
	__CPROVER_assert(epfd == v_state.u.epoll.epoll_fd, "wait on this thread's epoll descriptor");
	return fill(ev, max);
}

#define BANDS_OF(ev)	(((ev) & (EPOLLIN | EPOLLERR | EPOLLHUP) ? MASKIN : 0) |	\
			 ((ev) & (EPOLLOUT | EPOLLERR | EPOLLHUP) ? MASKOUT : 0) |	\
			 ((ev) & (EPOLLERR | EPOLLHUP) ? MASKERR : 0))

static struct timespec v_abs;

static void v_build(int with_timer)
{
	int i;

	VERIF_IN_LOAD();
	verif_st = &v_state;
	__CPROVER_assume(verif_in.n >= -1 && verif_in.n <= NE);
	__CPROVER_assume(verif_in.numfds >= 0 && verif_in.numfds <= 3);
	__CPROVER_assume(verif_in.n <= (with_timer ? verif_in.numfds + 1 : (verif_in.numfds ? verif_in.numfds : 1)));
	for (i = 0; i < NE; i++)
		__CPROVER_assume(verif_in.kind[i] <= (with_timer ? 3 : 2));
	__CPROVER_assume(verif_in.abs_nsec >= 0 && verif_in.abs_nsec < 1000000000 && verif_in.abs_sec >= 0 && verif_in.abs_sec < (1L << 40));
	__CPROVER_assume(verif_in.now_nsec >= 0 && verif_in.now_nsec < 1000000000 && verif_in.now_sec >= 0 && verif_in.now_sec < (1L << 40));
	__CPROVER_assume(verif_in.time_valid == 0 || verif_in.time_valid == 1);
	__CPROVER_assume(verif_in.pwait2 == 0 || verif_in.pwait2 == 1);
	v_state.numfds = verif_in.numfds;
	v_state.u.epoll.epoll_fd = 3;
	v_state.u.epoll.timer_fd = with_timer ? 4 : -1;
	/* descriptor 0 may have a pending change of wanted bands queued for the flush */
	INIT_IV_LIST_HEAD(&v_state.u.epoll.notify);
	k_epfd = 3; k_fdnum[0] = 40; k_fdnum[1] = 41; k_fdnum[2] = -7;
	v_fd[0].fd = 40; v_fd[1].fd = 41;
	v_fd[0].registered_bands = verif_in.rb0 & 7; v_fd[0].wanted_bands = verif_in.wb0 & 7;
	k_ep[0].present = v_fd[0].registered_bands != 0;
	k_ep[0].events = ((v_fd[0].registered_bands & MASKIN) ? EPOLLIN : 0) | ((v_fd[0].registered_bands & MASKOUT) ? EPOLLOUT : 0);
	k_ep[0].ptr = &v_fd[0];
	INIT_IV_LIST_HEAD(&v_fd[0].list_notify);
	if (v_fd[0].registered_bands != v_fd[0].wanted_bands)
		iv_list_add_tail(&v_fd[0].list_notify, &v_state.u.epoll.notify);
	INIT_IV_LIST_HEAD(&v_active);
	v_state.time_valid = verif_in.time_valid;
	v_state.time.tv_sec = verif_in.now_sec;
	v_state.time.tv_nsec = verif_in.now_nsec;
	epoll_pwait2_support = verif_in.pwait2;
	v_abs.tv_sec = verif_in.abs_sec;
	v_abs.tv_nsec = verif_in.abs_nsec;
}

static void check_common(int r, int expect_ret)
{
	int i, exp[2] = { 0, 0 }, kicks = 0, timers = 0;

	for (i = 0; i < NE; i++) {
		if (i >= verif_in.n)
			break;
		if (verif_in.kind[i] <= 1)
			exp[verif_in.kind[i]] |= BANDS_OF(verif_in.events[i]);
		else if (verif_in.kind[i] == 2)
			kicks++;
		else
			timers++;
	}
	__CPROVER_assert(g_waits == 1, "[C07] exactly one kernel wait");
	__CPROVER_assert(g_wait_with_pending == 0 && g_wait_kernel_stale == 0 && k_ctl_bad == 0, "[C02] deferred ADD/MOD/DEL are flushed before every wait: when the thread sleeps the kernel's interest equals the wanted bands");
	__CPROVER_assert(v_state.time_valid == 0, "[C04,C15,C05,C07] the cached clock is invalidated after every wait, also an interrupted one (otherwise a signal keeps due timers from running and the loop blocks again while something is due)");
	__CPROVER_assert(g_mr_bad == 0, "[C03] only real descriptors are made ready, one band at a time, on the caller's batch (the kick and timer entries are never treated as descriptors)");
	__CPROVER_assert(g_mr[0] == exp[0] && g_mr[1] == exp[1], "[C03,C02] ready bands are exactly the bands of the kernel-reported events: IN|ERR|HUP->in, OUT|ERR|HUP->out, ERR|HUP->err; unreported descriptors are not touched");
	__CPROVER_assert(g_run_events == (kicks ? 1 : 0), "[C08] pending cross-thread events are run iff the kick entry was reported");
	__CPROVER_assert(g_mr_after_events == 0, "[C01,C03,C18] cross-thread event handlers are run only after every entry of the kernel's batch has been handed over: such a handler may unregister (and free, or re-use) any descriptor, so no batch entry may be looked at after it");
	__CPROVER_assert(g_timer_reads == timers, "[C04] the timer descriptor is drained when it fired");
	__CPROVER_assert(r == expect_ret || (timers && r == 1), "[C04] verdict on re-running timers");
}

void h_epoll_poll(void)
{
	int r;

	v_build(0);
	r = iv_fd_epoll_poll(&v_state, &v_active, verif_in.abs_present ? &v_abs : NULL);
	__CPROVER_assert(r == 1, "[C04,C15] plain epoll: timers are re-evaluated after every wait (also after EINTR)");
	check_common(r, 1);
	CANARY();
}

void h_epoll_timerfd_poll(void)
{
	int r;

	v_build(1);
	r = iv_fd_epoll_timerfd_poll(&v_state, &v_active, verif_in.abs_present ? &v_abs : NULL);
	__CPROVER_assert(IMPLIES(verif_in.abs_present, r == 1), "[C04,C15] a bounded wait is always followed by a timer run (also after EINTR)");
	__CPROVER_assert(r == 0 || r == 1, "verdict is 0 or 1");
	check_common(r, verif_in.abs_present ? 1 : 0);
	CANARY();
}
