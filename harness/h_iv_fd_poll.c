/*
 * Proof units for src/iv_fd_poll.c (poll / ppoll methods).  Compiled with the
 * poll-only config.h variant (cfg "poll", DESIGN 2.1/A.8) so that st->u has
 * the single member `poll`.  C01, C02, C03, C15, C18.
 */
#include "iv_fd_poll.c"
#include "stubs/base.h"

#ifndef CAP
#define CAP 8		/* array capacity in this unit (real: IV_FD_POLL_MAXFD) */
#endif

#define PMASK(b)	((((b) & MASKIN) ? (POLLIN | POLLHUP) : 0) |	\
			 (((b) & MASKOUT) ? (POLLOUT | POLLHUP) : 0) |	\
			 (((b) & MASKERR) ? POLLHUP : 0))

/* dense-array invariant for one slot k (DESIGN 5/C02.3) */
#define P_SLOT(st, k)							\
	((st)->u.poll.fds[k]->u.index == (k) &&				\
	 (st)->u.poll.pfds[k].fd == (st)->u.poll.fds[k]->fd &&		\
	 (st)->u.poll.pfds[k].events == PMASK((st)->u.poll.fds[k]->wanted_bands) && \
	 (st)->u.poll.fds[k]->wanted_bands != 0)

struct verif_in_t {
	int	n;		/* registered slots */
	int	idx;		/* slot of the fd under test, or -1 */
	int	k;		/* ghost: some other slot */
	uint8_t	wanted;		/* new wanted_bands of the fd under test */
	uint8_t	wanted_l, wanted_k;
	int	fd_f, fd_l, fd_k;
	short	old_events;
	/* wait units */
	int	w_np;
	int	w_large;
	short	w_revents[CAP];
	short	w_stale[CAP];		/* what the revents fields still hold from the previous iteration */
	int	w_ret, w_err;		/* poll()/ppoll() outcome */
	int	w_ret2, w_err2;		/* poll() outcome after the ppoll -> poll fallback */
	_Bool	w_abs_present;
	long	w_abs_sec, w_abs_nsec;
	uint8_t	w_bits;
	uint8_t	w_eintr;		/* interruptions of the synchronous probe */
} verif_in;

static struct iv_state	v_state;
static struct iv_fd_	v_F, v_L, v_K;
static struct pollfd	v_pfds[CAP];
static struct iv_fd_	*v_fds[CAP];
int			verif_k;		/* ghost slot index, -1 if none */
int			verif_last;		/* n-1 if that slot holds v_L, else -1 */
const struct iv_fd_poll_method *method;

static void v_build(void)
{
	int n, idx, k;

	VERIF_IN_LOAD();
	n = verif_in.n; idx = verif_in.idx; k = verif_in.k;
	__CPROVER_assume(n >= 0 && n < CAP);
	__CPROVER_assume(idx >= -1 && idx < n);
	__CPROVER_assume(verif_in.wanted <= 7 && verif_in.wanted_l <= 7 && verif_in.wanted_k <= 7);
	__CPROVER_assume(verif_in.wanted_l != 0 && verif_in.wanted_k != 0);
	__CPROVER_assume(verif_in.fd_f >= 0 && verif_in.fd_f < IV_FD_POLL_MAXFD);

	verif_st = &v_state;
	v_state.u.poll.pfds = v_pfds;
	v_state.u.poll.fds = v_fds;
	v_state.u.poll.num_regd_fds = n;

	v_F.fd = verif_in.fd_f;
	v_F.wanted_bands = verif_in.wanted;
	v_F.registered = 1;
	v_F.u.index = idx;
	if (idx != -1) {
		v_state.u.poll.fds[idx] = &v_F;
		v_state.u.poll.pfds[idx].fd = v_F.fd;
		v_state.u.poll.pfds[idx].events = verif_in.old_events;
	}
	verif_last = -1;
	if (n > 0 && idx != n - 1) {
		verif_last = n - 1;
		v_L.fd = verif_in.fd_l;
		v_L.wanted_bands = verif_in.wanted_l;
		v_L.u.index = n - 1;
		v_state.u.poll.fds[n - 1] = &v_L;
		v_state.u.poll.pfds[n - 1].fd = v_L.fd;
		v_state.u.poll.pfds[n - 1].events = PMASK(v_L.wanted_bands);
	}
	verif_k = -1;
	if (k >= 0 && k < n && k != idx && k != n - 1) {
		verif_k = k;
		v_K.fd = verif_in.fd_k;
		v_K.wanted_bands = verif_in.wanted_k;
		v_K.u.index = k;
		v_state.u.poll.fds[k] = &v_K;
		v_state.u.poll.pfds[k].fd = v_K.fd;
		v_state.u.poll.pfds[k].events = PMASK(v_K.wanted_bands);
	}
}

#define NREG	(verif_st->u.poll.num_regd_fds)
#define OLD_IDX	__CPROVER_old(fd->u.index)
#define OLD_N	__CPROVER_old(verif_st->u.poll.num_regd_fds)

/* slot k holds object o with its invariant */
#define SLOT_IS(k, o)							\
	(v_fds[k] == (o) && (o)->u.index == (k) && v_pfds[k].fd == (o)->fd &&	\
	 v_pfds[k].events == PMASK((o)->wanted_bands) && (o)->wanted_bands != 0)

void iv_fd_poll_notify_fd__contract(struct iv_state *st, struct iv_fd_ *fd)
__CPROVER_requires(st == verif_st && fd == &v_F && NREG >= 0 && NREG < CAP)
__CPROVER_requires(st->u.poll.pfds == v_pfds && st->u.poll.fds == v_fds)
__CPROVER_requires(fd->u.index >= -1 && fd->u.index < NREG)
__CPROVER_requires(IMPLIES(fd->u.index != -1, v_fds[fd->u.index] == fd && v_pfds[fd->u.index].fd == fd->fd))
__CPROVER_requires(IMPLIES(verif_last != -1, verif_last == NREG - 1 && verif_last != fd->u.index && SLOT_IS(verif_last, &v_L)))
__CPROVER_requires(IMPLIES(verif_k != -1, verif_k >= 0 && verif_k < NREG - 1 && verif_k != fd->u.index && SLOT_IS(verif_k, &v_K)))
__CPROVER_assigns(fd->u.index, st->u.poll.num_regd_fds, v_L.u.index,
		  __CPROVER_object_whole(v_pfds), __CPROVER_object_whole(v_fds))
/* add */
__CPROVER_ensures(IMPLIES(OLD_IDX == -1 && fd->wanted_bands != 0,
	NREG == OLD_N + 1 && SLOT_IS(OLD_N, fd)))	/* [C02,C03,C15] a descriptor that wants a band gets a slot with its fd and the mask of its wanted bands */
/* remove */
__CPROVER_ensures(IMPLIES(OLD_IDX != -1 && fd->wanted_bands == 0,
	fd->u.index == -1 && NREG == OLD_N - 1))	/* [C01,C02,C03,C15,C18,C08] a descriptor that wants nothing holds no slot (whichever slot it had, slot 0 included) */
__CPROVER_ensures(IMPLIES(OLD_IDX != -1 && fd->wanted_bands == 0 && verif_last != -1,
	SLOT_IS(OLD_IDX, &v_L)))	/* [C01,C02,C03,C15,C18,C08] the last slot is moved into the hole, intact (fd, mask, back index), so the removed descriptor is in no live slot */
/* modify */
__CPROVER_ensures(IMPLIES(OLD_IDX != -1 && fd->wanted_bands != 0,
	NREG == OLD_N && SLOT_IS(OLD_IDX, fd)))	/* [C02,C03,C15] mask follows the wanted bands */
/* nothing to do */
__CPROVER_ensures(IMPLIES(OLD_IDX == -1 && fd->wanted_bands == 0,
	fd->u.index == -1 && NREG == OLD_N))	/* [C18] no slot is touched for a descriptor that has none and wants none */
/* every other slot is as it was (ghost slot k; and the last slot unless it was moved) */
__CPROVER_ensures(IMPLIES(verif_k != -1, SLOT_IS(verif_k, &v_K)))	/* [C02,C03,C15,C18,C08] other descriptors' slots are unaffected */
__CPROVER_ensures(IMPLIES(verif_last != -1 && !(OLD_IDX != -1 && fd->wanted_bands == 0),
	SLOT_IS(verif_last, &v_L)))	/* [C02,C03,C15,C18,C08] */
__CPROVER_ensures(fd->wanted_bands == __CPROVER_old(fd->wanted_bands) && fd->fd == __CPROVER_old(fd->fd))
;

void h_iv_fd_poll_notify_fd(void)
{
	v_build();
	CALL(iv_fd_poll_notify_fd)(&v_state, &v_F);
	CANARY();
}

/* ====================================================================
 * poll / ppoll wait functions, band mapping, sync probe, init/deinit.
 * Mode S; iv_fd_make_ready replaced by its contract as a ghost log.
 * ================================================================== */
#ifndef NP
#define NP 2			/* registered descriptors in the wait units */
#endif

static int	g_mr[CAP], g_mr_bad, g_poll_calls, g_ppoll_calls, g_clock_reads;
static int	g_poll_ms; static _Bool g_ppoll_to_null; static struct timespec g_ppoll_to;
static struct iv_list_head v_active;
static struct iv_fd_	v_pf[CAP];

void iv_fd_make_ready(struct iv_list_head *active, struct iv_fd_ *fd, int bands)
{
	int i = fd - v_pf;

	if (active != &v_active || i < 0 || i >= CAP || (bands != MASKIN && bands != MASKOUT && bands != MASKERR))
		g_mr_bad++;
	else
		g_mr[i] |= bands;
}

void iv_time_get(struct timespec *t) { g_clock_reads++; t->tv_sec = 5; t->tv_nsec = 0; }

static _Bool g_probe_mode; static int g_probe_eintr;

static int k_fill(struct pollfd *fds, nfds_t n, int ret, int err)
{
	int i;

	__CPROVER_assert(fds == v_pfds && n == (nfds_t)v_state.u.poll.num_regd_fds, "[C02,C15,C03] the wait covers exactly the dense array of registered descriptors (the count is not narrowed on the way)");
	if (ret < 0) {
		verif_errno = err;
		return -1;
	}
	for (i = 0; i < CAP; i++)
		if (i < (int)n)
			fds[i].revents = verif_in.w_revents[i];
	return ret;
}

int STUB(poll)(struct pollfd *fds, nfds_t n, int ms)
{
	g_poll_calls++;
	g_poll_ms = ms;
	if (g_probe_mode) {
		/* the synchronous probe of one descriptor (iv_fd_register_try) */
		__CPROVER_assert(n == 1 && ms == 0 && fds[0].fd == v_F.fd, "[C07] the probe asks the kernel about exactly this descriptor, without waiting");
		if (g_probe_eintr > 0) {
			g_probe_eintr--;
			verif_errno = EINTR;
			return -1;
		}
		if (verif_in.w_ret < 0) {
			verif_errno = verif_in.w_err;
			return -1;
		}
		fds[0].revents = verif_in.w_revents[0];
		return verif_in.w_ret;
	}
	if (g_ppoll_calls)
		return k_fill(fds, n, verif_in.w_ret2, verif_in.w_err2);
	return k_fill(fds, n, verif_in.w_ret, verif_in.w_err);
}

int STUB(ppoll)(struct pollfd *fds, nfds_t n, const struct timespec *to, const sigset_t *ss)
{
	g_ppoll_calls++;
	g_ppoll_to_null = (to == NULL);
	if (to != NULL)
		g_ppoll_to = *to;
	return k_fill(fds, n, verif_in.w_ret, verif_in.w_err);
}

#define BANDS_OF_POLL(rev)	(((rev) & (POLLIN | POLLERR | POLLHUP) ? MASKIN : 0) |	\
				 ((rev) & (POLLOUT | POLLERR | POLLHUP) ? MASKOUT : 0) |	\
				 ((rev) & (POLLERR | POLLHUP) ? MASKERR : 0))

static struct timespec v_abs2;

static void v_build_wait(void)
{
	int i;

	VERIF_IN_LOAD();
	verif_st = &v_state;
	__CPROVER_assume(verif_in.w_np >= 0 && verif_in.w_np <= NP);
	__CPROVER_assume(verif_in.w_abs_nsec >= 0 && verif_in.w_abs_nsec < 1000000000 && verif_in.w_abs_sec >= 0 && verif_in.w_abs_sec < (1L << 40));
	v_state.u.poll.pfds = v_pfds;
	v_state.u.poll.fds = v_fds;
	v_state.u.poll.num_regd_fds = verif_in.w_np;
	for (i = 0; i < CAP; i++) {
		v_fds[i] = &v_pf[i];
		v_pf[i].u.index = i;
		/* a failing poll()/ppoll() need not touch the array: the verdicts of the previous
		 * iteration are still in it */
		v_pfds[i].revents = verif_in.w_stale[i];
	}
	v_state.time_valid = 1;
	v_state.time.tv_sec = 5; v_state.time.tv_nsec = 0;
	INIT_IV_LIST_HEAD(&v_active);
	v_abs2.tv_sec = verif_in.w_abs_sec; v_abs2.tv_nsec = verif_in.w_abs_nsec;
}

static void check_wait(int r, int final_ret, int final_err)
{
	int i;

	__CPROVER_assert(v_state.time_valid == 0, "[C04,C15,C05,C07] the cached clock is invalidated after every wait, also an interrupted one (otherwise a signal keeps due timers from running and the loop blocks again while something is due)");
	__CPROVER_assert(r == 1, "[C04,C15] timers are re-evaluated after every wait (also after EINTR)");
	__CPROVER_assert(g_mr_bad == 0, "[C03] only registered descriptors are made ready, one band at a time, on the caller's batch");
	for (i = 0; i < NP; i++) {
		int exp = (final_ret >= 0 && i < verif_in.w_np) ? BANDS_OF_POLL(verif_in.w_revents[i]) : 0;
		__CPROVER_assert(g_mr[i] == exp, "[C03,C02] ready bands are exactly the bands of the revents reported by THIS wait (IN|ERR|HUP->in, OUT|ERR|HUP->out, ERR|HUP->err); nothing on EINTR, whatever the array still holds from the previous iteration");
	}
}

void h_poll_poll(void)
{
	int r;

	v_build_wait();
	__CPROVER_assume(verif_in.w_ret >= -1 && IMPLIES(verif_in.w_ret < 0, verif_in.w_err == EINTR));
	r = iv_fd_poll_poll(&v_state, &v_active, verif_in.w_abs_present ? &v_abs2 : NULL);
	__CPROVER_assert(g_poll_calls == 1, "[C07] exactly one kernel wait");
	__CPROVER_assert(IFF(g_poll_ms == -1, !verif_in.w_abs_present) && g_poll_ms >= -1, "[C04] unbounded wait iff there is no deadline");
	check_wait(r, verif_in.w_ret, verif_in.w_err);
	v_state.time_valid = 1;		/* same clock reading as before the wait (5 s) */
	__CPROVER_assert(g_poll_ms == to_msec(&v_state, verif_in.w_abs_present ? &v_abs2 : NULL), "[C04] millisecond timeout is to_msec(deadline) at the loop clock (to_msec is specified in unit time_to_msec)");
	CANARY();
}

void h_poll_ppoll(void)
{
	int r;
	const struct iv_fd_poll_method *m0;

	v_build_wait();
	method = m0 = &iv_fd_poll_method_ppoll;
	__CPROVER_assume(verif_in.w_ret >= -1 && IMPLIES(verif_in.w_ret < 0, verif_in.w_err == EINTR || verif_in.w_err == ENOSYS));
	__CPROVER_assume(verif_in.w_ret2 >= -1 && IMPLIES(verif_in.w_ret2 < 0, verif_in.w_err2 == EINTR));
	r = iv_fd_poll_ppoll(&v_state, &v_active, verif_in.w_abs_present ? &v_abs2 : NULL);
	__CPROVER_assert(g_ppoll_calls == 1, "[C15] ppoll is tried first");
	__CPROVER_assert(IFF(g_ppoll_to_null, !verif_in.w_abs_present), "[C04] unbounded wait iff there is no deadline");
	if (verif_in.w_ret < 0 && verif_in.w_err == ENOSYS) {
		__CPROVER_assert(method == &iv_fd_poll_method_poll && g_poll_calls == 1, "[C15] ppoll missing: the method is switched to poll in mid-run and the same wait (same array, same deadline) is done with poll");
		__CPROVER_assert(IFF(g_poll_ms == -1, !verif_in.w_abs_present), "[C15,C04] same deadline");
		check_wait(r, verif_in.w_ret2, verif_in.w_err2);
	} else {
		__CPROVER_assert(method == m0 && g_poll_calls == 0, "[C15] otherwise the method is unchanged");
		check_wait(r, verif_in.w_ret, verif_in.w_err);
	}
	CANARY();
}

/* band -> poll mask table, all 8 inputs */
void h_poll_bits_mask(void)
{
	int m;

	VERIF_IN_LOAD();
	__CPROVER_assume(verif_in.w_bits <= 7);
	m = bits_to_poll_mask(verif_in.w_bits);
	__CPROVER_assert(m == PMASK(verif_in.w_bits), "[C02,C03] band to poll-mask mapping: in->POLLIN|POLLHUP, out->POLLOUT|POLLHUP, err->POLLHUP");
	CANARY();
}

/* synchronous probe of iv_fd_register_try */
void h_poll_notify_fd_sync(void)
{
	int r, n0;

	v_build();
	__CPROVER_assume(verif_in.idx == -1 && verif_in.wanted != 0);
	v_F.u.index = -1;
	n0 = v_state.u.poll.num_regd_fds;
	g_probe_mode = 1;
	__CPROVER_assume(verif_in.w_eintr <= 2 && verif_in.w_err != EINTR && verif_in.w_ret <= 1);
	g_probe_eintr = verif_in.w_eintr;
	r = iv_fd_poll_notify_fd_sync(&v_state, &v_F);
	__CPROVER_assert(r == 0 || r == -1, "verdict");
	__CPROVER_assert(IFF(r == -1, verif_in.w_ret < 0 || (verif_in.w_revents[0] & POLLNVAL)), "[C07,C15] rejected iff the kernel reports an error or an invalid descriptor; EINTR is retried");
	__CPROVER_assert(IMPLIES(r == -1, v_state.u.poll.num_regd_fds == n0 && v_F.u.index == -1), "[C07,C18,C03] a rejected descriptor gets no slot: the poll array never points to an iv_fd that is not registered (no later write to, or handler call on, an object the caller may have freed)");
	__CPROVER_assert(IMPLIES(r == 0, v_state.u.poll.num_regd_fds == n0 + 1 && v_F.u.index == n0), "[C02] an accepted one is added to the array");
	CANARY();
}

/* ---- register_fd, init, deinit --------------------------------------------- */
void h_poll_register_fd(void)
{
	v_build();
	v_F.u.index = 12345;
	iv_fd_poll_register_fd(&v_state, &v_F);
	__CPROVER_assert(v_F.u.index == -1, "[C03,C02] a freshly registered descriptor owns no slot until it wants a band");
	CANARY();
}

void h_poll_init_deinit(void)
{
	int r;
	struct iv_state st;

	r = iv_fd_poll_init(&st);
	__CPROVER_assert(r == 0 || r == -1, "init verdict");
	if (r == 0) {
		__CPROVER_assert(st.u.poll.num_regd_fds == 0 && st.u.poll.pfds != NULL && st.u.poll.fds != NULL, "[C18] both arrays allocated, nothing registered");
		iv_fd_poll_deinit(&st);	/* with --memory-leak-check: both arrays are released */
	}
	CANARY();
}

/* any population: the wait is interrupted, so the array is not walked and its size does not matter */
void h_poll_wait_large(void)
{
	int r;

	v_build_wait();
	__CPROVER_assume(verif_in.w_large >= 0);
	v_state.u.poll.num_regd_fds = verif_in.w_large;		/* up to INT_MAX registered descriptors */
	verif_in.w_ret = -1; verif_in.w_err = EINTR;
	verif_in.w_ret2 = -1; verif_in.w_err2 = EINTR;
	if (verif_in.w_bits & 1) {
		method = &iv_fd_poll_method_ppoll;
		r = iv_fd_poll_ppoll(&v_state, &v_active, verif_in.w_abs_present ? &v_abs2 : NULL);
		__CPROVER_assert(g_ppoll_calls == 1 && g_poll_calls == 0, "[C15] one ppoll");
	} else {
		r = iv_fd_poll_poll(&v_state, &v_active, verif_in.w_abs_present ? &v_abs2 : NULL);
		__CPROVER_assert(g_poll_calls == 1, "[C07] one poll");
	}
	__CPROVER_assert(r == 1 && g_mr_bad == 0, "[C03] an interrupted wait reports nothing");
	CANARY();
}

