/*
 * Proof units for src/iv_fd_poll.c (poll / ppoll methods).  Compiled with the
 * poll-only config.h variant (cfg "poll", DESIGN 2.1/A.8) so that st->u has
 * the single member `poll`.  C01, C02, C03, C15, C18.
 */
#include "iv_fd_poll.c"
#include "stubs/base.h"

#ifndef CAP
#define CAP 8		/* array capacity in this unit (real: IV_FD_POLL_MAXFD) */
#endif

#define PMASK(b)	((((b) & MASKIN) ? (POLLIN | POLLHUP) : 0) |	\
			 (((b) & MASKOUT) ? (POLLOUT | POLLHUP) : 0) |	\
			 (((b) & MASKERR) ? POLLHUP : 0))

/* dense-array invariant for one slot k (DESIGN 5/C02.3) */
#define P_SLOT(st, k)							\
	((st)->u.poll.fds[k]->u.index == (k) &&				\
	 (st)->u.poll.pfds[k].fd == (st)->u.poll.fds[k]->fd &&		\
	 (st)->u.poll.pfds[k].events == PMASK((st)->u.poll.fds[k]->wanted_bands) && \
	 (st)->u.poll.fds[k]->wanted_bands != 0)

struct verif_in_t {
	int	n;		/* registered slots */
	int	idx;		/* slot of the fd under test, or -1 */
	int	k;		/* ghost: some other slot */
	uint8_t	wanted;		/* new wanted_bands of the fd under test */
	uint8_t	wanted_l, wanted_k;
	int	fd_f, fd_l, fd_k;
	short	old_events;
	int	sync_ret;	/* poll() result in notify_fd_sync */
	short	sync_revents;
	int	sync_errno;
	uint8_t	sync_eintr;
} verif_in;

static struct iv_state	v_state;
static struct iv_fd_	v_F, v_L, v_K;
static struct pollfd	v_pfds[CAP];
static struct iv_fd_	*v_fds[CAP];
int			verif_k;		/* ghost slot index, -1 if none */
int			verif_last;		/* n-1 if that slot holds v_L, else -1 */
const struct iv_fd_poll_method *method;

static void v_build(void)
{
	int n, idx, k;

	VERIF_IN_LOAD();
	n = verif_in.n; idx = verif_in.idx; k = verif_in.k;
	__CPROVER_assume(n >= 0 && n < CAP);
	__CPROVER_assume(idx >= -1 && idx < n);
	__CPROVER_assume(verif_in.wanted <= 7 && verif_in.wanted_l <= 7 && verif_in.wanted_k <= 7);
	__CPROVER_assume(verif_in.wanted_l != 0 && verif_in.wanted_k != 0);
	__CPROVER_assume(verif_in.fd_f >= 0 && verif_in.fd_f < IV_FD_POLL_MAXFD);

	verif_st = &v_state;
	v_state.u.poll.pfds = v_pfds;
	v_state.u.poll.fds = v_fds;
	v_state.u.poll.num_regd_fds = n;

	v_F.fd = verif_in.fd_f;
	v_F.wanted_bands = verif_in.wanted;
	v_F.registered = 1;
	v_F.u.index = idx;
	if (idx != -1) {
		v_state.u.poll.fds[idx] = &v_F;
		v_state.u.poll.pfds[idx].fd = v_F.fd;
		v_state.u.poll.pfds[idx].events = verif_in.old_events;
	}
	verif_last = -1;
	if (n > 0 && idx != n - 1) {
		verif_last = n - 1;
		v_L.fd = verif_in.fd_l;
		v_L.wanted_bands = verif_in.wanted_l;
		v_L.u.index = n - 1;
		v_state.u.poll.fds[n - 1] = &v_L;
		v_state.u.poll.pfds[n - 1].fd = v_L.fd;
		v_state.u.poll.pfds[n - 1].events = PMASK(v_L.wanted_bands);
	}
	verif_k = -1;
	if (k >= 0 && k < n && k != idx && k != n - 1) {
		verif_k = k;
		v_K.fd = verif_in.fd_k;
		v_K.wanted_bands = verif_in.wanted_k;
		v_K.u.index = k;
		v_state.u.poll.fds[k] = &v_K;
		v_state.u.poll.pfds[k].fd = v_K.fd;
		v_state.u.poll.pfds[k].events = PMASK(v_K.wanted_bands);
	}
}

#define NREG	(verif_st->u.poll.num_regd_fds)
#define OLD_IDX	__CPROVER_old(fd->u.index)
#define OLD_N	__CPROVER_old(verif_st->u.poll.num_regd_fds)

/* slot k holds object o with its invariant */
#define SLOT_IS(k, o)							\
	(v_fds[k] == (o) && (o)->u.index == (k) && v_pfds[k].fd == (o)->fd &&	\
	 v_pfds[k].events == PMASK((o)->wanted_bands) && (o)->wanted_bands != 0)

void iv_fd_poll_notify_fd__contract(struct iv_state *st, struct iv_fd_ *fd)
__CPROVER_requires(st == verif_st && fd == &v_F && NREG >= 0 && NREG < CAP)
__CPROVER_requires(st->u.poll.pfds == v_pfds && st->u.poll.fds == v_fds)
__CPROVER_requires(fd->u.index >= -1 && fd->u.index < NREG)
__CPROVER_requires(IMPLIES(fd->u.index != -1, v_fds[fd->u.index] == fd && v_pfds[fd->u.index].fd == fd->fd))
__CPROVER_requires(IMPLIES(verif_last != -1, verif_last == NREG - 1 && verif_last != fd->u.index && SLOT_IS(verif_last, &v_L)))
__CPROVER_requires(IMPLIES(verif_k != -1, verif_k >= 0 && verif_k < NREG - 1 && verif_k != fd->u.index && SLOT_IS(verif_k, &v_K)))
__CPROVER_assigns(fd->u.index, st->u.poll.num_regd_fds, v_L.u.index,
		  __CPROVER_object_whole(v_pfds), __CPROVER_object_whole(v_fds))
/* add */
__CPROVER_ensures(IMPLIES(OLD_IDX == -1 && fd->wanted_bands != 0,
	NREG == OLD_N + 1 && SLOT_IS(OLD_N, fd)))	/* [C02] a descriptor that wants a band gets a slot with its fd and the mask of its wanted bands */
/* remove */
__CPROVER_ensures(IMPLIES(OLD_IDX != -1 && fd->wanted_bands == 0,
	fd->u.index == -1 && NREG == OLD_N - 1))	/* [C01,C02] a descriptor that wants nothing holds no slot */
__CPROVER_ensures(IMPLIES(OLD_IDX != -1 && fd->wanted_bands == 0 && verif_last != -1,
	SLOT_IS(OLD_IDX, &v_L)))	/* [C01,C02] the last slot is moved into the hole, intact (fd, mask, back index), so the removed descriptor is in no live slot */
/* modify */
__CPROVER_ensures(IMPLIES(OLD_IDX != -1 && fd->wanted_bands != 0,
	NREG == OLD_N && SLOT_IS(OLD_IDX, fd)))	/* [C02] mask follows the wanted bands */
/* nothing to do */
__CPROVER_ensures(IMPLIES(OLD_IDX == -1 && fd->wanted_bands == 0,
	fd->u.index == -1 && NREG == OLD_N))	/* [C18] no slot is touched for a descriptor that has none and wants none */
/* every other slot is as it was (ghost slot k; and the last slot unless it was moved) */
__CPROVER_ensures(IMPLIES(verif_k != -1, SLOT_IS(verif_k, &v_K)))	/* [C02,C05] other descriptors' slots are unaffected */
__CPROVER_ensures(IMPLIES(verif_last != -1 && !(OLD_IDX != -1 && fd->wanted_bands == 0),
	SLOT_IS(verif_last, &v_L)))	/* [C02] */
__CPROVER_ensures(fd->wanted_bands == __CPROVER_old(fd->wanted_bands) && fd->fd == __CPROVER_old(fd->fd))
;

void h_iv_fd_poll_notify_fd(void)
{
	v_build();
	CALL(iv_fd_poll_notify_fd)(&v_state, &v_F);
	CANARY();
}
