/*
 * Unbounded step lemmas for the sift loops of src/iv_timer.c (pull_up,
 * push_down) and for the states in which iv_timer_register /
 * iv_timer_unregister start them.  C05, C04, C01, C07.  Mode S.
 *
 * The population n is ANY value in [0, 2^30): the heap is not built, it is
 * materialised lazily.  iv_timer_get_node is replaced (goto-instrument
 * --replace-calls) by its contract "the slot of index i is one stable cell,
 * the cells of 2j and 2j+1 are adjacent" (proved for the real radix tree in the
 * timer_get_node units): only the cell pairs in the neighbourhood of the step
 * (element, ancestors / descendants two levels away) and of the ghost position
 * exist, each with an unconstrained timer (unconstrained 128-bit key) whose
 * back index is exact, or NULL above the population; a lookup of any other
 * slot is reported.  The universally quantified invariant of the ORIGINAL
 * state is assumed exactly on the cells that exist: every instance "edge
 * (c/2, c) is in order" whose two cells are both materialised (instances of a
 * true universal statement are true: sound; a missing instance could only
 * produce a spurious failure on the unchanged tree).
 *
 * Invariants (H = slot array, n = population, le = "expires not later"):
 *   ORDER      : for all c in 2..n            le(H[c/2], H[c])
 *   UP(x, dn)  : for all c in 2..n, p = c/2
 *                  c != x && p != x  ->  le(H[p], H[c])
 *                  p == x && x >= 2  ->  le(H[x/2], H[c])     (grandparent)
 *                  p == x && dn      ->  le(H[x], H[c])
 *   DOWN(x)    : for all c in 2..n, p = c/2
 *                  p != x            ->  le(H[p], H[c])
 *                  p == x && x >= 2  ->  le(H[x/2], H[c])
 *   all three  : H[c] != NULL && H[c]->index == c for 1 <= c <= n; H[c] == NULL above
 *
 * Lemmas checked here, each at one ghost position k that is ANY position
 * (so the conclusion holds at every position):
 *   up_step    UP(x, dn) and one or two iterations of the real pull_up  ==>
 *              UP(x', 1) with 1 <= x' < x at each later loop head, or on exit
 *              DOWN(xf) and (dn || moved -> children of xf in order)
 *   down_step  DOWN(x) and one or two iterations of the real push_down ==>
 *              DOWN(x') with x < x' <= n at each later loop head, or ORDER on exit
 *   reg_base   ORDER(n) and the real iv_timer_register up to its call of pull_up
 *              ==> UP(n+1, 1) over n+1, arguments consistent
 *   unreg_base ORDER(n) and the real iv_timer_unregister up to its call of
 *              pull_up ==> UP(idx, 0) over n-1, arguments consistent; the call of
 *              push_down is on the same slot with an exact back index
 * Induction over the iterations (and: UP(x,dn) exit with dn gives ORDER; after a
 * move ORDER gives DOWN(any); without a move xf == idx) is the paper step.
 */
#include "iv_timer.c"
#include "stubs/base.h"

#define NPAIR	8
#define NCELL	(2 * NPAIR)

struct verif_in_t {
	int		n;		/* population the ORIGINAL invariant speaks about */
	int		x;		/* where the sift starts / the victim's index */
	int		k;		/* ghost position */
	unsigned char	dn;
	int		numobjs, rat_depth;
	long		sec[NCELL + 1], nsec[NCELL + 1];
} verif_in;

enum { M_ORDER, M_UP, M_DOWN };

static struct iv_state	v_state;
/* timers live in 64-byte cells so that "which timer does this pointer name" is a shift, not a division */
static struct v_tim {
	struct iv_timer_	t;
	char			pad[64 - sizeof(struct iv_timer_)];
} v_T[NCELL + 1];					/* v_T[NCELL]: the timer being registered */
static struct v_pair {
	int			key;		/* cells 2*key and 2*key+1 */
	struct iv_timer_	*cur[2];	/* what the code sees */
	int			oid[2];		/* ORIGINAL content: index into v_T, -1 = empty */
} v_P[NPAIR];
static int	v_np;
static int	v_n0, v_mode0, v_x0, v_dn0;	/* the invariant assumed on the original contents */

/* "a expires not later than b", on timer ids (keys never change: checked by v_check_present) */
static int le_id(int a, int b)
{
	return !(verif_in.sec[a] > verif_in.sec[b] ||
		 (verif_in.sec[a] == verif_in.sec[b] && verif_in.nsec[a] > verif_in.nsec[b]));
}

/* pair that holds cell c, -1 if not materialised */
static int v_find(int c)
{
	int j;

	for (j = 0; j < NPAIR; j++)
		if (j < v_np && v_P[j].key == (c >> 1))
			return j;
	return -1;
}

/* assume every instance of the ORIGINAL invariant whose cells both exist */
static void v_instances(void)
{
	int j, b;

	for (j = 0; j < NPAIR; j++) {
		for (b = 0; b < 2; b++) {
			int c = 2 * v_P[j].key + b;
			int p = c >> 1;
			int pp, gp;

			if (j >= v_np || c < 2 || c > v_n0)
				continue;
			pp = v_find(p);
			if (pp < 0)
				continue;
			if (v_mode0 == M_ORDER || (v_mode0 == M_UP && c != v_x0 && p != v_x0) ||
			    (v_mode0 == M_DOWN && p != v_x0))
				__CPROVER_assume(le_id(v_P[pp].oid[p & 1], v_P[j].oid[b]));
			if (v_mode0 != M_ORDER && p == v_x0) {
				if (v_mode0 == M_UP && v_dn0)
					__CPROVER_assume(le_id(v_P[pp].oid[p & 1], v_P[j].oid[b]));
				gp = v_find(p >> 1);
				if (v_x0 >= 2 && gp >= 0)
					__CPROVER_assume(le_id(v_P[gp].oid[(p >> 1) & 1], v_P[j].oid[b]));
			}
		}
	}
}

/* create the pair that holds cell c (before the store is sealed) */
static int	v_sealed;
static void v_want(int c)
{
	int j, b;

	if (c < 0 || c > v_n0 + 1 || v_find(c) >= 0)
		return;
	__CPROVER_assert(v_np < NPAIR, "materialisation budget of the harness");
	j = v_np++;
	v_P[j].key = c >> 1;
	for (b = 0; b < 2; b++) {
		int cc = 2 * v_P[j].key + b;

		if (cc >= 1 && cc <= v_n0) {
			v_T[2 * j + b].t.index = cc;
			v_T[2 * j + b].t.expires.tv_sec = verif_in.sec[2 * j + b];
			v_T[2 * j + b].t.expires.tv_nsec = verif_in.nsec[2 * j + b];
			v_P[j].cur[b] = &v_T[2 * j + b].t;
			v_P[j].oid[b] = 2 * j + b;
		} else {
			v_P[j].cur[b] = NULL;
			v_P[j].oid[b] = -1;
		}
	}
}

/* all cells the step can reach exist now: assume the invariant's instances, once */
static void v_seal(void)
{
	v_instances();
	v_sealed = 1;
}

/* the pair that holds cell c; a lookup outside the neighbourhood of the step is reported */
static int v_cell(int c)
{
	int j = v_find(c);

	if (j < 0) {
		__CPROVER_assert(0, "[C05] one sift step looks at no other slots than the element's, its parent's and its children's");
		__CPROVER_assume(0);
	}
	return j;
}

#define CUR(c)	(v_P[v_cell(c)].cur[(c) & 1])
/* id of the timer a slot points to (the real code only moves pointers to v_T[] around) */
static int v_id(const struct iv_timer_ *t)
{
	__CPROVER_assert(t != NULL && __CPROVER_same_object(t, v_T), "[C05] heap slots hold registered timers");
	return (const struct v_tim *)t - v_T;
}

/* ---- the callee contract of iv_timer_get_node, with the loop-head checks --- */
enum { PH_NONE, PH_UP, PH_DOWN };
static int			v_phase, v_calls, v_n, v_dn;
static struct iv_timer_		*v_x;		/* the element being sifted */
static int			v_prev_x;
static void v_check(int mode, int x, int dn, int n);

struct iv_timer_ **verif_get_node(struct iv_state *st, int index)
{
	int q;

	__CPROVER_assert(st == &v_state && index >= 1 && index <= v_n + 1, "[C05] slot lookups stay within the population (and the first free slot)");
	v_calls++;
	if (v_phase == PH_UP && v_calls >= 2) {
		/* loop head of pull_up after a completed iteration */
		__CPROVER_assert(v_x->index >= 1 && v_x->index < v_prev_x, "[C05] sift-up terminates: the element's index strictly decreases");
		__CPROVER_assert(index == v_x->index / 2, "[C05] sift-up compares the element with its parent");
		v_check(M_UP, v_x->index, 1, v_n);
		v_prev_x = v_x->index;
		if (v_calls >= 3)
			__CPROVER_assume(0);
	}
	if (v_phase == PH_DOWN && v_calls >= 2) {
		__CPROVER_assert(v_x->index > v_prev_x && v_x->index <= v_n, "[C05] sift-down terminates: the element's index strictly increases within the population");
		__CPROVER_assert(index == 2 * v_x->index, "[C05] sift-down compares the element with its children");
		v_check(M_DOWN, v_x->index, 0, v_n);
		v_prev_x = v_x->index;
		if (v_calls >= 3)
			__CPROVER_assume(0);
	}
	q = v_cell(index);
	return &v_P[q].cur[index & 1];
}

/* the invariant `mode` on cur[] at the ghost position, population n */
static void v_check(int mode, int x, int dn, int n)
{
	int k = verif_in.k;
	int qk = v_find(k), qp = v_find(k >> 1), qg = v_find(k >> 2);
	struct iv_timer_ *hk;
	int ik;

	__CPROVER_assert(qk >= 0 && qp >= 0 && qg >= 0, "ghost cells exist");
	hk = v_P[qk].cur[k & 1];
	if (k > n) {
		__CPROVER_assert(hk == NULL, "[C05] slots above the population are empty");
		return;
	}
	if (k < 1)
		return;
	__CPROVER_assert(hk != NULL, "[C05] heap slot is occupied");
	ik = v_id(hk);
	__CPROVER_assert(hk->index == k, "[C05,C01] back index of every heap slot is exact");
	if (k >= 2) {
		int p = k >> 1;
		struct iv_timer_ *hp = v_P[qp].cur[p & 1];
		int ip;

		__CPROVER_assert(hp != NULL, "[C05] parent slot is occupied");
		ip = v_id(hp);
		if (mode == M_ORDER || (mode == M_UP && k != x && p != x) || (mode == M_DOWN && p != x))
			__CPROVER_assert(le_id(ip, ik), "[C05,C04] heap order: no timer sits above one with a strictly earlier expiry, except on the edges next to the element being sifted");
		if (mode != M_ORDER && p == x) {
			if (mode == M_UP && dn)
				__CPROVER_assert(le_id(ip, ik), "[C05,C04] heap order below the element once it has moved up");
			if (x >= 2) {
				struct iv_timer_ *hg = v_P[qg].cur[(p >> 1) & 1];
				__CPROVER_assert(hg != NULL, "[C05] grandparent slot is occupied");
				__CPROVER_assert(le_id(v_id(hg), ik), "[C05,C04] the children of the element being sifted are not earlier than its parent");
			}
		}
	}
}

/* the ghost timer (the one that sat at k originally) is still in the store exactly once, key unchanged */
static void v_check_present(int n, struct iv_timer_ *gone)
{
	int k = verif_in.k;
	int s = v_P[v_find(k)].oid[k & 1];
	struct iv_timer_ *t;
	int q;

	if (s < 0)
		return;
	t = &v_T[s].t;
	if (t == gone)
		return;
	__CPROVER_assert(t->index >= 1 && t->index <= n, "[C05] every other registered timer is still in the store (independence)");
	q = v_find(t->index);
	__CPROVER_assert(q >= 0 && v_P[q].cur[t->index & 1] == t, "[C05] every other registered timer sits in the slot its back index names, exactly once");
	__CPROVER_assert(t->expires.tv_sec == verif_in.sec[s] && t->expires.tv_nsec == verif_in.nsec[s], "[C05] no timer's expiry is changed");
}

static void v_build(int mode)
{
	int n;

	VERIF_IN_LOAD();
	n = verif_in.n;
	verif_st = &v_state;
	__CPROVER_assume(n >= 0 && n < (1 << 30));
	__CPROVER_assume(verif_in.rat_depth >= 0 && verif_in.rat_depth <= 4);
	__CPROVER_assume(verif_in.numobjs >= n && verif_in.numobjs < INT_MAX);
	v_state.rat_depth = verif_in.rat_depth;
	v_state.num_timers = n;
	v_state.numobjs = verif_in.numobjs;
	v_np = 0;
	v_n0 = n;
	v_mode0 = mode;
	v_x0 = verif_in.x;
	v_dn0 = verif_in.dn ? 1 : 0;
	v_phase = PH_NONE;
	v_calls = 0;
	v_n = n;
	__CPROVER_assume(verif_in.k >= 0 && verif_in.k <= n + 1);
	v_sealed = 0;
	v_want(verif_in.k);
	v_want(verif_in.k >> 1);
	v_want(verif_in.k >> 2);
}

/* ------------------------------------------------------------------ */
void h_sift_up_step(void)
{
	int n, xf, dnf;
	struct iv_timer_ **i;

	v_build(M_UP);
	n = verif_in.n;
	__CPROVER_assume(verif_in.x >= 1 && verif_in.x <= n);
	v_want(verif_in.x);
	v_want(verif_in.x >> 1);
	v_want(verif_in.x >> 2);
	v_seal();
	i = &CUR(verif_in.x);
	v_x = *i;
	v_prev_x = verif_in.x;
	v_phase = PH_UP;
	v_calls = 0;

	pull_up(&v_state, verif_in.x, i);

	/* exit of the loop within the first two iterations */
	xf = v_x->index;
	dnf = v_dn0 || xf != verif_in.x;
	__CPROVER_assert(xf >= 1 && xf <= verif_in.x, "[C05] sift-up never moves the element down");
	v_check(M_DOWN, xf, 0, n);
	v_check(M_UP, xf, dnf, n);	/* adds: children in order once moved (or known good) */
	v_check_present(n, NULL);
	__CPROVER_assert(v_state.num_timers == n && v_state.numobjs == verif_in.numobjs, "[C07] sifting changes no count");
	CANARY();
}

void h_sift_down_step(void)
{
	int n;
	struct iv_timer_ **i;

	v_build(M_DOWN);
	n = verif_in.n;
	__CPROVER_assume(verif_in.x >= 1 && verif_in.x <= n);
	v_want(verif_in.x);
	v_want(verif_in.x >> 1);
	if (verif_in.x <= n / 2) {
		v_want(2 * verif_in.x);			/* children */
		if (2 * verif_in.x <= n / 2)
			v_want(4 * verif_in.x);		/* children of the left child */
		if (2 * verif_in.x + 1 <= n / 2)
			v_want(4 * verif_in.x + 2);	/* children of the right child */
	}
	v_seal();
	i = &CUR(verif_in.x);
	v_x = *i;
	v_prev_x = verif_in.x;
	v_phase = PH_DOWN;
	v_calls = 0;

	push_down(&v_state, verif_in.x, i);

	__CPROVER_assert(v_x->index >= verif_in.x && v_x->index <= n, "[C05] sift-down never moves the element up");
	v_check(M_ORDER, 0, 0, n);
	v_check_present(n, NULL);
	__CPROVER_assert(v_state.num_timers == n && v_state.numobjs == verif_in.numobjs, "[C07] sifting changes no count");
	CANARY();
}

/* ---- the states in which register / unregister start the sifts ---- */
static int	g_pull_calls, g_push_calls, g_remove_calls;
static struct iv_timer_	*g_moved;

void verif_pull_up_pre(struct iv_state *st, int index, struct iv_timer_ **i)
{
	g_pull_calls++;
	__CPROVER_assert(st == &v_state && index >= 1 && index <= st->num_timers && st->num_timers == v_n, "[C05] sift-up is started inside the population");
	__CPROVER_assert(v_find(index) >= 0 && i == &v_P[v_find(index)].cur[index & 1], "[C05] sift-up is given the slot of that index");
	__CPROVER_assert(*i != NULL && *i == g_moved && (*i)->index == index, "[C05] sift-up starts on the moved element, whose back index is exact");
	__CPROVER_assert(index == v_x0, "[C05] sift-up starts where the heap was disturbed");
	v_check(M_UP, index, v_dn, v_n);
	v_phase = PH_NONE;
}

void verif_push_down_pre(struct iv_state *st, int index, struct iv_timer_ **i)
{
	g_push_calls++;
	__CPROVER_assert(g_pull_calls == 1, "[C05,C04] order is restored upwards first, then downwards");
	__CPROVER_assert(st == &v_state && index == v_x0 && st->num_timers == v_n, "[C05] sift-down is started on the disturbed slot");
	__CPROVER_assert(v_find(index) >= 0 && i == &v_P[v_find(index)].cur[index & 1], "[C05] sift-down is given the slot of that index");
	__CPROVER_assert(*i != NULL && (*i)->index == index, "[C05] sift-down starts on a slot whose back index is exact");
}

void verif_remove_level_nop(struct iv_state *st)
{
	g_remove_calls++;
	st->rat_depth--;
}

void h_sift_reg_base(void)
{
	int n;
	struct iv_timer_ *t = &v_T[NCELL].t;

	v_build(M_ORDER);
	n = verif_in.n;
	__CPROVER_assume(n < (1 << 30) - 1);
	v_want(n + 1);
	v_seal();
	t->index = -1;
	t->expires.tv_sec = verif_in.sec[NCELL];
	t->expires.tv_nsec = verif_in.nsec[NCELL];
	g_moved = t;
	v_x0 = n + 1;		/* used by the pre-state check only: orig[] is ORDER */
	v_dn = 1;
	v_n = n + 1;
	g_pull_calls = g_push_calls = 0;

	iv_timer_register((struct iv_timer *)t);

	__CPROVER_assert(g_pull_calls == 1 && g_push_calls == 0, "[C05] a new timer is sifted up once");
	__CPROVER_assert(v_state.num_timers == n + 1, "[C05] population grows by one");
	__CPROVER_assert(v_state.numobjs == verif_in.numobjs + 1, "[C07] accounting: +1");
	v_check_present(n + 1, NULL);
	CANARY();
}

void h_sift_unreg_base(void)
{
	int n, x;
	struct iv_timer_ *t;

	v_build(M_ORDER);
	n = verif_in.n;
	x = verif_in.x;
	__CPROVER_assume(n >= 1 && x >= 1 && x <= n && verif_in.numobjs >= 1);
	v_want(x);
	v_want(n);
	v_want(x >> 1);
	v_seal();
	t = CUR(x);
	g_moved = CUR(n);
	v_dn = 0;
	v_n = n - 1;
	v_x0 = x;		/* used by the pre-state checks only: orig[] is ORDER */
	g_pull_calls = g_push_calls = g_remove_calls = 0;

	iv_timer_unregister((struct iv_timer *)t);

	__CPROVER_assert(t->index == -1, "[C01] the victim reads as unregistered");
	__CPROVER_assert(v_state.num_timers == n - 1, "[C05] population shrinks by one");
	__CPROVER_assert(v_state.numobjs == verif_in.numobjs - 1, "[C07] accounting: -1");
	__CPROVER_assert(x == n ? (g_pull_calls == 0 && g_push_calls == 0) : (g_pull_calls == 1 && g_push_calls == 1),
			 "[C05,C04] the moved element is sifted both ways (up, then down) iff something was moved");
	__CPROVER_assert(CUR(n) == NULL, "[C05] the last slot is emptied");
	if (verif_in.k >= 1 && verif_in.k <= n)
		__CPROVER_assert(CUR(verif_in.k) != t, "[C01] no slot of the store points to the unregistered timer");
	if (x == n)
		v_check(M_ORDER, 0, 0, n - 1);
	v_check_present(n - 1, t);
	CANARY();
}
