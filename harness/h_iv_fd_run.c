/*
 * Bounded unit for iv_fd_poll_and_run (src/iv_fd.c): dispatch loop with a most
 * general client (DESIGN 2.4).  NF heap-allocated fds; the poll method is the
 * backend-interface stub whose poll hook reports a nondeterministic set of
 * bands per fd through the real iv_fd_make_ready; every handler invocation
 * may unregister (and free) any fd or change any handler.
 * C01, C02, C03, C18.  Mode S, loop unwound NF+1 times.
 */
#include "iv_fd.c"
#include "stubs/base.h"

#ifndef NF
#define NF 2
#endif
#define NCALL (2 * NF)

struct verif_in_t {
	uint8_t	rb[NF];			/* bands the kernel reported for fd i (0 = not ready) */
	_Bool	has[NF][3];		/* handler present for band in/out/err */
	uint8_t	act[NCALL][NF];		/* client action in the k-th handler call on fd j */
	int	poll_ret;
	int	numobjs;
	uint8_t	order;
} verif_in;

static struct iv_state		v_state;
static struct iv_fd_		*v_f[NF];
static struct iv_fd_poll_method	v_bi;
static _Bool	g_freed[NF], g_touched[NF];
static int	g_calls[NF][3];
static int	g_ncall;
static int	g_polls;

static void h_in_a(void *c);  static void h_in_b(void *c);
static void h_out_a(void *c); static void h_out_b(void *c);
static void h_err_a(void *c); static void h_err_b(void *c);

static void bi_notify_fd(struct iv_state *st, struct iv_fd_ *fd) { }
static void bi_unregister_fd(struct iv_state *st, struct iv_fd_ *fd) { }

static int bi_poll(struct iv_state *st, struct iv_list_head *active, const struct timespec *abs)
{
	int k, i;

	g_polls++;
	for (k = 0; k < NF; k++) {
		i = (verif_in.order & 1) ? NF - 1 - k : k;
		/* backend contract (proved in the epoll/poll units): ready bands = bands of the
		 * reported kernel events, only for bands that are wanted */
		if (verif_in.rb[i] & MASKIN)
			iv_fd_make_ready(active, v_f[i], MASKIN);
		if (verif_in.rb[i] & MASKOUT)
			iv_fd_make_ready(active, v_f[i], MASKOUT);
		if (verif_in.rb[i] & MASKERR)
			iv_fd_make_ready(active, v_f[i], MASKERR);
	}
	return verif_in.poll_ret;
}

static void client(void)
{
	int j;

	if (g_ncall < NCALL) {
		for (j = 0; j < NF; j++) {
			uint8_t a = verif_in.act[g_ncall][j];

			if (g_freed[j])
				continue;
			if (a == 7) {
				v_state.quit = 1;	/* iv_quit() from a handler: takes effect in iv_main, after this batch */
				continue;
			}
			if (a == 0 || !v_f[j]->registered)
				continue;
			g_touched[j] = 1;
			if (a == 1) {
				iv_fd_unregister((struct iv_fd *)v_f[j]);
				free(v_f[j]);		/* the caller may free it immediately */
				g_freed[j] = 1;
			} else if (a == 2) {
				iv_fd_set_handler_in((struct iv_fd *)v_f[j], NULL);
			} else if (a == 3) {
				iv_fd_set_handler_in((struct iv_fd *)v_f[j], h_in_b);
			} else if (a == 4) {
				iv_fd_set_handler_out((struct iv_fd *)v_f[j], NULL);
			} else if (a == 5) {
				iv_fd_set_handler_err((struct iv_fd *)v_f[j], NULL);
			} else if (a == 6) {
				iv_fd_unregister((struct iv_fd *)v_f[j]);	/* unregistered but kept */
			}
		}
	}
	g_ncall++;
}

static void on_entry(void *c, int band, void (*self)(void *))
{
	int i = (int)(intptr_t)c;
	struct iv_fd_ *fd;

	__CPROVER_assert(i >= 0 && i < NF, "[C03] handler called with the descriptor's own cookie");
	__CPROVER_assert(!g_freed[i], "[C01] no handler call for an fd that was unregistered (and freed)");
	fd = v_f[i];
	__CPROVER_assert(fd->registered, "[C01,C03] handler runs only while the fd is registered");
	__CPROVER_assert((band == 0 ? fd->handler_in : band == 1 ? fd->handler_out : fd->handler_err) == self,
			 "[C03] called through the handler pointer currently set for that band");
	__CPROVER_assert(verif_in.rb[i] & (1 << band), "[C03] band was reported ready by the preceding kernel poll");
	__CPROVER_assert(g_calls[i][band] == 0, "[C03] a band's handler runs at most once per loop iteration");
	__CPROVER_assert(IMPLIES(band == 2, g_calls[i][0] == 0 && g_calls[i][1] == 0), "[C03] error band is dispatched first");
	__CPROVER_assert(IMPLIES(band == 0, g_calls[i][1] == 0), "[C03] input band is dispatched before output");
	__CPROVER_assert(v_state.handled_fd == fd, "[C01] the being-dispatched marker names the fd whose handler runs");
	g_calls[i][band]++;
	client();
}

static void h_in_a(void *c)  { on_entry(c, 0, h_in_a); }
static void h_in_b(void *c)  { on_entry(c, 0, h_in_b); }
static void h_out_a(void *c) { on_entry(c, 1, h_out_a); }
static void h_out_b(void *c) { on_entry(c, 1, h_out_b); }
static void h_err_a(void *c) { on_entry(c, 2, h_err_a); }
static void h_err_b(void *c) { on_entry(c, 2, h_err_b); }

int STUB(fcntl)(int fd, int cmd, ...) { return 0; }
int STUB(setsockopt)(int fd, int level, int optname, const void *optval, socklen_t optlen) { return 0; }

void h_iv_fd_poll_and_run(void)
{
	int i, b, r;

	VERIF_IN_LOAD();
	verif_st = &v_state;
	method = &v_bi;
	v_bi.poll = bi_poll;
	v_bi.notify_fd = bi_notify_fd;
	v_bi.unregister_fd = bi_unregister_fd;
	v_bi.set_poll_timeout = NULL;
	v_bi.register_fd = NULL;
	__CPROVER_assume(verif_in.numobjs >= NF && verif_in.numobjs < 1000);
	v_state.numobjs = verif_in.numobjs;
	v_state.numfds = NF;
	v_state.handled_fd = NULL;
	for (i = 0; i < NF; i++) {
		v_f[i] = malloc(sizeof(struct iv_fd_));
		__CPROVER_assume(v_f[i] != NULL);
		v_f[i]->fd = 10 + i;
		v_f[i]->cookie = (void *)(intptr_t)i;
		v_f[i]->handler_in = verif_in.has[i][0] ? h_in_a : NULL;
		v_f[i]->handler_out = verif_in.has[i][1] ? h_out_a : NULL;
		v_f[i]->handler_err = verif_in.has[i][2] ? h_err_a : NULL;
		v_f[i]->registered = 1;
		v_f[i]->ready_bands = 0;
		INIT_IV_LIST_HEAD(&v_f[i]->list_active);
		INIT_IV_LIST_HEAD(&v_f[i]->list_notify);
		__CPROVER_assume(verif_in.rb[i] <= 7);
	}

	r = iv_fd_poll_and_run(&v_state, NULL);

	__CPROVER_assert(g_polls == 1, "[C07] one kernel poll per iteration");
	__CPROVER_assert(r == verif_in.poll_ret, "[C04] the poll method's verdict on re-running timers is passed on");
	for (i = 0; i < NF; i++) {
		if (g_freed[i])
			continue;
		__CPROVER_assert(v_f[i]->list_active.next == &v_f[i]->list_active || !v_f[i]->registered,
				 "[C03,C02,C18] the ready batch is fully drained: no fd stays linked into it (its head lives on the stack of this call)");
		for (b = 0; b < 3; b++) {
			void (*h)(void *) = b == 0 ? v_f[i]->handler_in : b == 1 ? v_f[i]->handler_out : v_f[i]->handler_err;

			__CPROVER_assert(IMPLIES(!g_touched[i] && (verif_in.rb[i] & (1 << b)) && h != NULL, g_calls[i][b] == 1),
					 "[C02,C07] a ready band with a handler is dispatched in this iteration unless a callback cleared it or unregistered the fd (a handler calling iv_quit does not cut the batch short)");
			__CPROVER_assert(IMPLIES(!(verif_in.rb[i] & (1 << b)) || (h == NULL && !g_touched[i]), g_calls[i][b] == 0),
					 "[C03] a band that was not reported, or has no handler, is never called");
		}
	}
	__CPROVER_assert(v_state.numobjs >= 0, "object count stays sane");
	CANARY();
}
