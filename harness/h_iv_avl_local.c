/*
 * Local lemmas for the AVL rebalancing step of src/iv_avl.c (C16), valid for
 * every tree: rebalance_node / the four rotations / recalc_height on a
 * symbolic neighbourhood of 15 positions:
 *
 *   position 0            the subtree root  (*ref)
 *   positions 1,2         its children              (real nodes, present or not)
 *   positions 4,5         the inner grandchildren   (real nodes, present or not)
 *   positions 3,6         the outer grandchildren   ABSTRACT subtrees
 *   positions 9..12       children of 4 and 5       ABSTRACT subtrees
 *   (7,8,13,14 unused.)  An ABSTRACT subtree is a node whose recorded height is
 *   symbolic (1..250) and whose own children are never looked at (invalid
 *   pointers, so any access below it is a pointer-check failure): it stands for
 *   every subtree of that height.  No rotation looks below these positions.
 *
 * Pre:  every proper descendant is balanced with an exact recorded height, the
 *       root's recorded height is exact, its children differ by at most 2,
 *       parent links inside the neighbourhood are consistent.
 * Post: the subtree hanging from *ref is balanced, all recorded heights exact,
 *       parent links consistent, (*ref)->parent is the old parent, the in-order
 *       sequence of nodes and abstract subtrees is unchanged, the height is the
 *       old one or one less, and nothing changes at all if no rotation is due.
 * Loop-free: unbounded / complete.  Mode S.
 */
#include "iv_avl.c"
#define VERIF_NO_TLS
#include "stubs/base.h"

#define NN 15
struct verif_in_t {
	_Bool	present[NN];
	uint8_t	h[NN];		/* recorded heights of the abstract subtrees (positions 7..14) */
	_Bool	has_parent;
} verif_in;

static struct iv_avl_node	v_n[NN];
static struct iv_avl_node	v_parent;
static struct iv_avl_node	*v_ref;

static int ABSTRACT(int i) { return i == 3 || i == 6 || (i >= 9 && i <= 12); }
static int USED(int i) { return i <= 6 || (i >= 9 && i <= 12); }
static int P(int i) { return i < NN && USED(i) && verif_in.present[i]; }

/* exact height of the subtree at position i in the INITIAL shape */
static int h0(int i)
{
	int l, r;

	if (!P(i))
		return 0;
	if (ABSTRACT(i))
		return verif_in.h[i];
	l = h0(2 * i + 1);
	r = h0(2 * i + 2);
	return 1 + (l > r ? l : r);
}

static void v_build(void)
{
	int i;

	VERIF_IN_LOAD();
	__CPROVER_assume(verif_in.present[0]);
	for (i = 1; i < NN; i++)
		__CPROVER_assume(IMPLIES(verif_in.present[i], verif_in.present[(i - 1) / 2]));
	for (i = 1; i < NN; i++)
		__CPROVER_assume(IMPLIES(verif_in.present[i] && ABSTRACT(i), verif_in.h[i] >= 1 && verif_in.h[i] <= 250));
	for (i = 0; i < NN; i++) {
		if (!P(i))
			continue;
		if (!ABSTRACT(i)) {
			v_n[i].left = P(2 * i + 1) ? &v_n[2 * i + 1] : NULL;
			v_n[i].right = P(2 * i + 2) ? &v_n[2 * i + 2] : NULL;
			v_n[i].height = h0(i);
		} else {
			/* abstract subtree: children must never be dereferenced */
			v_n[i].left = (struct iv_avl_node *)(uintptr_t)8;
			v_n[i].right = (struct iv_avl_node *)(uintptr_t)8;
			v_n[i].height = verif_in.h[i];
		}
		v_n[i].parent = (i == 0) ? (verif_in.has_parent ? &v_parent : NULL) : &v_n[(i - 1) / 2];
	}
	/* proper descendants (depth 1 and 2) are balanced */
	for (i = 1; i < 7; i++) {
		if (P(i) && !ABSTRACT(i)) {
			int d = h0(2 * i + 2) - h0(2 * i + 1);
			__CPROVER_assume(d >= -1 && d <= 1);
		}
	}
	{
		int d = h0(2) - h0(1);
		__CPROVER_assume(d >= -2 && d <= 2);
	}
	v_ref = &v_n[0];
}

/* in-order sequence of the neighbourhood reachable from r, down to `depth` levels; abstract
 * nodes (index >= 7) are atoms */
static int g_seq[NN + 1], g_seq_n;
static void inorder(struct iv_avl_node *r, int depth)
{
	if (r == NULL)
		return;
	if (ABSTRACT(r - v_n) || depth == 0) {
		if (g_seq_n < NN)
			g_seq[g_seq_n] = r - v_n;
		g_seq_n++;
		return;
	}
	inorder(r->left, depth - 1);
	if (g_seq_n < NN)
		g_seq[g_seq_n] = r - v_n;
	g_seq_n++;
	inorder(r->right, depth - 1);
}

/* exact height / balance / parent check of the subtree at r (abstract nodes are atoms) */
static int g_ok;
static int check(struct iv_avl_node *r, struct iv_avl_node *parent, int depth)
{
	int l, rr, d;

	if (r == NULL)
		return 0;
	if (r->parent != parent)
		g_ok = 0;
	if (ABSTRACT(r - v_n))
		return r->height;
	if (depth == 0) {
		g_ok = 0;	/* cannot happen: a rotation sinks a node by at most one level */
		return r->height;
	}
	l = check(r->left, r, depth - 1);
	rr = check(r->right, r, depth - 1);
	d = rr - l;
	if (d < -1 || d > 1)
		g_ok = 0;
	if (r->height != 1 + (l > rr ? l : rr))
		g_ok = 0;
	return r->height;
}

void h_rebalance_node(void)
{
	int seq0[NN + 1], n0, i, hroot, bal, hnew;
	struct iv_avl_node *oldparent;

	v_build();
	g_seq_n = 0;
	inorder(v_ref, 4);
	n0 = g_seq_n;
	for (i = 0; i < NN; i++)
		seq0[i] = g_seq[i];
	hroot = h0(0);
	bal = h0(2) - h0(1);
	oldparent = v_n[0].parent;

	rebalance_node(&v_ref);

	__CPROVER_assert(v_ref != NULL && v_ref->parent == oldparent, "[C16] the subtree keeps its place: the new subtree root has the old parent");
	g_ok = 1;
	hnew = check(v_ref, oldparent, 4);
	__CPROVER_assert(g_ok, "[C16] after the step every node of the subtree is height-balanced, every recorded height is exact and every parent link is consistent");
	__CPROVER_assert(hnew == hroot || hnew == hroot - 1, "[C16] a rebalancing step keeps the subtree height or lowers it by one");
	__CPROVER_assert(IMPLIES(bal >= -1 && bal <= 1, v_ref == &v_n[0] && hnew == hroot), "[C16] a balanced node is left alone");
	g_seq_n = 0;
	inorder(v_ref, 4);
	__CPROVER_assert(g_seq_n == n0, "[C16] no node or subtree is lost or duplicated by a rotation");
	for (i = 0; i < NN; i++)
		if (i < n0)
			__CPROVER_assert(g_seq[i] == seq0[i], "[C16] rotations preserve the in-order sequence (comparator order) of all nodes and subtrees");
	CANARY();
}

/* recalc_height alone */
void h_recalc_height(void)
{
	int l, r;

	v_build();
	v_n[0].height = verif_in.h[0];	/* stale */
	recalc_height(&v_n[0]);
	l = h0(1); r = h0(2);
	__CPROVER_assert(v_n[0].height == 1 + (l > r ? l : r), "[C16] recorded height = 1 + max of the children's recorded heights");
	CANARY();
}
