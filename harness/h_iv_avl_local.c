/*
 * Local lemmas for the AVL rebalancing step of src/iv_avl.c (C16), valid for
 * every tree: rebalance_node / the four rotations / recalc_height on a
 * symbolic neighbourhood of 15 positions:
 *
 *   position 0            the subtree root  (*ref)
 *   positions 1,2         its children              (real nodes, present or not)
 *   positions 4,5         the inner grandchildren   (real nodes, present or not)
 *   positions 3,6         the outer grandchildren   ABSTRACT subtrees
 *   positions 9..12       children of 4 and 5       ABSTRACT subtrees
 *   (7,8,13,14 unused.)  An ABSTRACT subtree is a node whose recorded height is
 *   symbolic (1..250) and whose own children are never looked at (invalid
 *   pointers, so any access below it is a pointer-check failure): it stands for
 *   every subtree of that height.  No rotation looks below these positions.
 *
 * Pre:  every proper descendant is balanced with an exact recorded height, the
 *       root's recorded height is exact, its children differ by at most 2,
 *       parent links inside the neighbourhood are consistent.
 * Post: the subtree hanging from *ref is balanced, all recorded heights exact,
 *       parent links consistent, (*ref)->parent is the old parent, the in-order
 *       sequence of nodes and abstract subtrees is unchanged, the height is the
 *       old one or one less, and nothing changes at all if no rotation is due.
 * Loop-free: unbounded / complete.  Mode S.
 */
#include "iv_avl.c"
#define VERIF_NO_TLS
#include "stubs/base.h"

#define NN 15
struct verif_in_t {
	_Bool	present[NN];
	uint8_t	h[NN];		/* recorded heights of the abstract subtrees (positions 7..14) */
	_Bool	has_parent;
} verif_in;

static struct iv_avl_node	v_n[NN];
static struct iv_avl_node	v_parent;
static struct iv_avl_node	*v_ref;

static int ABSTRACT(int i) { return i == 3 || i == 6 || (i >= 9 && i <= 12); }
static int USED(int i) { return i <= 6 || (i >= 9 && i <= 12); }
static int P(int i) { return i < NN && USED(i) && verif_in.present[i]; }

/* exact height of the subtree at position i in the INITIAL shape */
static int h0(int i)
{
	int l, r;

	if (!P(i))
		return 0;
	if (ABSTRACT(i))
		return verif_in.h[i];
	l = h0(2 * i + 1);
	r = h0(2 * i + 2);
	return 1 + (l > r ? l : r);
}

static void v_build(void)
{
	int i;

	VERIF_IN_LOAD();
	__CPROVER_assume(verif_in.present[0]);
	for (i = 1; i < NN; i++)
		__CPROVER_assume(IMPLIES(verif_in.present[i], verif_in.present[(i - 1) / 2]));
	for (i = 1; i < NN; i++)
		__CPROVER_assume(IMPLIES(verif_in.present[i] && ABSTRACT(i), verif_in.h[i] >= 1 && verif_in.h[i] <= 250));
	for (i = 0; i < NN; i++) {
		if (!P(i))
			continue;
		if (!ABSTRACT(i)) {
			v_n[i].left = P(2 * i + 1) ? &v_n[2 * i + 1] : NULL;
			v_n[i].right = P(2 * i + 2) ? &v_n[2 * i + 2] : NULL;
			v_n[i].height = h0(i);
		} else {
			/* abstract subtree: children must never be dereferenced */
			v_n[i].left = (struct iv_avl_node *)(uintptr_t)8;
			v_n[i].right = (struct iv_avl_node *)(uintptr_t)8;
			v_n[i].height = verif_in.h[i];
		}
		v_n[i].parent = (i == 0) ? (verif_in.has_parent ? &v_parent : NULL) : &v_n[(i - 1) / 2];
	}
	/* proper descendants (depth 1 and 2) are balanced */
	for (i = 1; i < 7; i++) {
		if (P(i) && !ABSTRACT(i)) {
			int d = h0(2 * i + 2) - h0(2 * i + 1);
			__CPROVER_assume(d >= -1 && d <= 1);
		}
	}
	{
		int d = h0(2) - h0(1);
		__CPROVER_assume(d >= -2 && d <= 2);
	}
	v_ref = &v_n[0];
}

/* in-order sequence of the neighbourhood reachable from r, down to `depth` levels; abstract
 * nodes (index >= 7) are atoms */
static int g_seq[NN + 1], g_seq_n;
static void inorder(struct iv_avl_node *r, int depth)
{
	if (r == NULL)
		return;
	if (ABSTRACT(r - v_n) || depth == 0) {
		if (g_seq_n < NN)
			g_seq[g_seq_n] = r - v_n;
		g_seq_n++;
		return;
	}
	inorder(r->left, depth - 1);
	if (g_seq_n < NN)
		g_seq[g_seq_n] = r - v_n;
	g_seq_n++;
	inorder(r->right, depth - 1);
}

/* exact height / balance / parent check of the subtree at r (abstract nodes are atoms) */
static int g_ok;
static int check(struct iv_avl_node *r, struct iv_avl_node *parent, int depth)
{
	int l, rr, d;

	if (r == NULL)
		return 0;
	if (r->parent != parent)
		g_ok = 0;
	if (ABSTRACT(r - v_n))
		return r->height;
	if (depth == 0) {
		g_ok = 0;	/* cannot happen: a rotation sinks a node by at most one level */
		return r->height;
	}
	l = check(r->left, r, depth - 1);
	rr = check(r->right, r, depth - 1);
	d = rr - l;
	if (d < -1 || d > 1)
		g_ok = 0;
	if (r->height != 1 + (l > rr ? l : rr))
		g_ok = 0;
	return r->height;
}

void h_rebalance_node(void)
{
	int seq0[NN + 1], n0, i, hroot, bal, hnew;
	struct iv_avl_node *oldparent;

	v_build();
	g_seq_n = 0;
	inorder(v_ref, 4);
	n0 = g_seq_n;
	for (i = 0; i < NN; i++)
		seq0[i] = g_seq[i];
	hroot = h0(0);
	bal = h0(2) - h0(1);
	oldparent = v_n[0].parent;

	rebalance_node(&v_ref);

	__CPROVER_assert(v_ref != NULL && v_ref->parent == oldparent, "[C16] the subtree keeps its place: the new subtree root has the old parent");
	g_ok = 1;
	hnew = check(v_ref, oldparent, 4);
	__CPROVER_assert(g_ok, "[C16] after the step every node of the subtree is height-balanced, every recorded height is exact and every parent link is consistent");
	__CPROVER_assert(hnew == hroot || hnew == hroot - 1, "[C16] a rebalancing step keeps the subtree height or lowers it by one");
	__CPROVER_assert(IMPLIES(bal >= -1 && bal <= 1, v_ref == &v_n[0] && hnew == hroot), "[C16] a balanced node is left alone");
	g_seq_n = 0;
	inorder(v_ref, 4);
	__CPROVER_assert(g_seq_n == n0, "[C16] no node or subtree is lost or duplicated by a rotation");
	for (i = 0; i < NN; i++)
		if (i < n0)
			__CPROVER_assert(g_seq[i] == seq0[i], "[C16] rotations preserve the in-order sequence (comparator order) of all nodes and subtrees");
	CANARY();
}

/* recalc_height alone */
void h_recalc_height(void)
{
	int l, r;

	v_build();
	v_n[0].height = verif_in.h[0];	/* stale */
	recalc_height(&v_n[0]);
	l = h0(1); r = h0(2);
	__CPROVER_assert(v_n[0].height == 1 + (l > r ? l : r), "[C16] recorded height = 1 + max of the children's recorded heights");
	CANARY();
}

/* ====================================================================
 * Local lemmas for the unlink steps of iv_avl_tree_delete (before the
 * rebalancing walk): valid for every tree, with abstract subtrees off the
 * touched path.  Victim chains of length <= 2 (one unwinding assertion).
 * ================================================================== */
struct verif_del_t {
	_Bool	an_has_parent, an_is_left;	/* where `an` hangs */
	_Bool	has_l, has_r;			/* an's children */
	uint8_t	hl, hr;				/* their recorded heights */
	uint8_t	chain;				/* victim is chain steps below the chosen child (0, 1, 2) */
	_Bool	victim_has_child;
	uint8_t	h_an;
} ;
static struct iv_avl_tree	d_tree;
static struct iv_avl_node	d_par, d_an, d_L, d_R, d_c1, d_c2, d_vc, d_sib1, d_sib2;
struct verif_in_del_t { struct verif_del_t d; } ;

/* position of d_an in its parent / the tree */
static struct iv_avl_node **an_ref(const struct verif_del_t *d)
{
	if (!d->an_has_parent)
		return &d_tree.root;
	return d->an_is_left ? &d_par.left : &d_par.right;
}

static void abstract_node(struct iv_avl_node *n, struct iv_avl_node *parent, int h)
{
	n->left = (struct iv_avl_node *)(uintptr_t)8;	/* never dereferenced */
	n->right = (struct iv_avl_node *)(uintptr_t)8;
	n->parent = parent;
	n->height = h;
}

void h_delete_leaf(void)
{
	struct verif_del_t d, nd;
	struct iv_avl_node *r, **ref;

	d = nd;
	d_an.left = NULL; d_an.right = NULL; d_an.height = 1;
	d_an.parent = d.an_has_parent ? &d_par : NULL;
	abstract_node(&d_sib1, &d_par, 3);
	d_par.left = &d_sib1; d_par.right = &d_sib1;
	d_tree.root = &d_sib2;
	ref = an_ref(&d);
	*ref = &d_an;

	d_par.height = d.h_an;		/* any recorded height */
	d_par.parent = (struct iv_avl_node *)(uintptr_t)8;

	r = iv_avl_tree_delete_leaf(&d_tree, &d_an);

	__CPROVER_assert(d_par.height == d.h_an && d_par.parent == (struct iv_avl_node *)(uintptr_t)8 && d_sib1.height == 3,
			 "[C16] the unlink step records no height: the parent still carries the height from before the deletion, which is the loop-head state of the rebalancing walk (that side shrunk by one)");

	__CPROVER_assert(*ref == NULL, "[C16] deleting a leaf clears exactly the reference that pointed to it");
	__CPROVER_assert(r == (d.an_has_parent ? &d_par : NULL), "[C16] rebalancing starts at the leaf's parent");
	__CPROVER_assert(IMPLIES(d.an_has_parent && d.an_is_left, d_par.right == &d_sib1) && IMPLIES(d.an_has_parent && !d.an_is_left, d_par.left == &d_sib1), "[C16] the sibling is untouched");
	__CPROVER_assert(IMPLIES(d.an_has_parent, d_tree.root == &d_sib2), "[C16] the root pointer is untouched unless the leaf was the root");
	CANARY();
}

void h_delete_nonleaf(void)
{
	struct verif_del_t d, nd;
	struct iv_avl_node *r, **ref, *victim, *top, *vparent;
	int left_side;

	d = nd;
	__CPROVER_assume(d.has_l || d.has_r);
	__CPROVER_assume(d.chain <= 2);
	__CPROVER_assume(d.hl >= 1 && d.hl <= 250 && d.hr >= 1 && d.hr <= 250);
	d_an.parent = d.an_has_parent ? &d_par : NULL;
	abstract_node(&d_sib1, &d_par, 3);
	d_par.left = &d_sib1; d_par.right = &d_sib1;
	d_tree.root = &d_sib2;
	ref = an_ref(&d);
	*ref = &d_an;
	d_an.height = d.h_an;
	/* children: the one the victim is taken from is real (a chain), the other abstract */
	left_side = (d.has_l ? d.hl : 0) > (d.has_r ? d.hr : 0);
	if (!left_side)
		__CPROVER_assume(d.has_r);	/* heights exact: the right subtree exists when it is at least as high */
	top = &d_L;
	if (left_side) {
		d_an.left = &d_L; d_L.parent = &d_an; d_L.height = d.hl;
		d_an.right = d.has_r ? &d_R : NULL;
		if (d.has_r) abstract_node(&d_R, &d_an, d.hr);
	} else {
		d_an.right = &d_L; d_L.parent = &d_an; d_L.height = d.hr;
		d_an.left = d.has_l ? &d_R : NULL;
		if (d.has_l) abstract_node(&d_R, &d_an, d.hl);
	}
	/* chain towards the victim: along ->right in the left subtree, ->left in the right subtree */
#define TOWARDS(n)	(left_side ? (n)->right : (n)->left)
#define AWAY(n)		(left_side ? (n)->left : (n)->right)
#define SET_TOWARDS(n, v)	do { if (left_side) (n)->right = (v); else (n)->left = (v); } while (0)
#define SET_AWAY(n, v)		do { if (left_side) (n)->left = (v); else (n)->right = (v); } while (0)
	SET_AWAY(&d_L, &d_sib2); abstract_node(&d_sib2, &d_L, 2);	/* reuse: off-path subtree of the top */
	d_tree.root = d.an_has_parent ? &d_par : &d_an;
	*ref = &d_an;
	victim = &d_L;
	if (d.chain >= 1) {
		SET_TOWARDS(&d_L, &d_c1); d_c1.parent = &d_L; d_c1.height = 5;
		SET_AWAY(&d_c1, NULL);
		victim = &d_c1;
	}
	if (d.chain >= 2) {
		SET_TOWARDS(&d_c1, &d_c2); d_c2.parent = &d_c1; d_c2.height = 4;
		SET_AWAY(&d_c2, NULL);
		victim = &d_c2;
	}
	SET_TOWARDS(victim, NULL);
	if (d.victim_has_child) {
		SET_AWAY(victim, &d_vc); abstract_node(&d_vc, victim, 1);
	} else if (victim != &d_L) {
		SET_AWAY(victim, NULL);
	} else {
		SET_AWAY(victim, NULL);
	}
	vparent = victim->parent;
	d_par.height = 77;

	r = iv_avl_tree_delete_nonleaf(&d_tree, &d_an);

	__CPROVER_assert(d_par.height == 77 && IMPLIES(victim != &d_L, d_L.height == (left_side ? d.hl : d.hr)) &&
			 IMPLIES(d.chain >= 2, d_c1.height == 5) && d_sib2.height == 2 && IMPLIES(d.victim_has_child, d_vc.height == 1),
			 "[C16] the unlink step records no height except the one the victim inherits: every node on the path from the victim's old place upwards still carries the height from before the deletion, which is the loop-head state of the rebalancing walk (that side shrunk by one)");

	__CPROVER_assert(*ref == victim && victim->parent == d_an.parent, "[C16] the in-order neighbour (victim) takes the deleted node's place under its parent");
	__CPROVER_assert(victim->height == d.h_an, "[C16] and its recorded height (the rebalancing walk recomputes it)");
	__CPROVER_assert(r == (vparent == &d_an ? victim : vparent), "[C16] rebalancing starts where the victim was unlinked: its old parent, or the victim itself when that parent was the deleted node");
	if (victim != &d_L) {
		/* the victim's old place is taken by its only child (or cleared) */
		__CPROVER_assert(TOWARDS(vparent) == (d.victim_has_child ? &d_vc : NULL), "[C16] the victim's place is taken by its only child, or cleared");
		__CPROVER_assert(IMPLIES(d.victim_has_child, d_vc.parent == vparent), "[C16] that child is re-parented");
		__CPROVER_assert((left_side ? victim->left : victim->right) == &d_L && d_L.parent == victim, "[C16] the deleted node's subtree on the victim's side hangs from the victim");
	} else {
		__CPROVER_assert((left_side ? victim->left : victim->right) == (d.victim_has_child ? &d_vc : NULL) && IMPLIES(d.victim_has_child, d_vc.parent == victim), "[C16] a victim that was the direct child keeps its own subtree on that side");
	}
	__CPROVER_assert((left_side ? victim->right : victim->left) == ((left_side ? d.has_r : d.has_l) ? &d_R : NULL) && IMPLIES(left_side ? d.has_r : d.has_l, d_R.parent == victim), "[C16] the deleted node's other subtree hangs from the victim and points back to it");
	__CPROVER_assert(IMPLIES(d.an_has_parent, d_tree.root == &d_par) && IMPLIES(!d.an_has_parent, d_tree.root == victim), "[C16] the root pointer follows iff the deleted node was the root");
	CANARY();
}

void h_find_reference(void)
{
	struct verif_del_t d, nd;
	struct iv_avl_node **ref;

	d = nd;
	d_an.parent = d.an_has_parent ? &d_par : NULL;
	d_par.left = &d_sib1; d_par.right = &d_sib1; d_tree.root = &d_sib2;
	*an_ref(&d) = &d_an;
	ref = find_reference(&d_tree, &d_an);
	__CPROVER_assert(ref == an_ref(&d) && *ref == &d_an, "[C16] find_reference yields the one pointer (parent's left, parent's right, or the root) that points to the node");
	replace_reference(&d_tree, &d_an, &d_vc);
	__CPROVER_assert(*an_ref(&d) == &d_vc, "[C16] replace_reference redirects exactly that pointer");
	CANARY();
}

/* ====================================================================
 * Step lemma for rebalance_path (the walk from the changed node to the
 * root), valid for every tree and every path length.
 *
 * State at a loop head, node `an` (INV(an)):
 *   - every proper descendant of an is balanced with exact recorded heights
 *     (the neighbourhood of v_build, abstract subtrees at its rim);
 *   - an's recorded height `old` is the one it had before the change: there is
 *     a side s and a delta in {-1,0,+1} such that undoing delta on side s gives
 *     children heights that differ by at most one and whose max + 1 is `old`;
 *   - an's parent P (if any) is consistent WITH THAT RECORDED height:
 *     P->height == 1 + max(old, hs), |old - hs| <= 1, hs = height of the
 *     sibling (an abstract subtree); everything above P is likewise consistent
 *     with the recorded heights and is not touched by one iteration.
 * One iteration of the real loop (find_reference replaced by its contract,
 * proved in avl_find_reference; its second call is the next loop head, where
 * the state is checked and the path cut):
 *   - the subtree that hung at an is balanced, exact, correctly parented, hangs
 *     where an hung, its in-order sequence is unchanged, its height h' differs
 *     from `old` by at most one;
 *   - the walk stops only if h' == old (then P is consistent with true heights,
 *     and so, by the third item, is everything above: the whole tree is an AVL
 *     tree) or an was the root;
 *   - otherwise it continues at P, and INV(P) holds with s = an's side and
 *     delta = h' - old.
 * Induction over the iterations is the paper step.
 * ================================================================== */
struct verif_path_t {
	_Bool	is_left;	/* an is P's left child */
	uint8_t	hs;		/* height of the sibling subtree, 0 = none */
	_Bool	s_left;		/* witness: the side of an that changed */
	int8_t	delta;		/* witness: by how much */
};
static struct verif_path_t	v_path;
static struct iv_avl_tree	v_ptree;
static struct iv_avl_node	v_sib;
static int			g_fr_calls, v_old, v_seq0[NN + 1], v_seqn0;
static struct iv_avl_node	**v_ref1;

static void path_check_subtree(int *hnew)
{
	int i;

	__CPROVER_assert(*v_ref1 != NULL && (*v_ref1)->parent == (verif_in.has_parent ? &v_parent : NULL),
			 "[C16] the rebalanced subtree hangs where the node hung and points back to the same parent");
	g_ok = 1;
	*hnew = check(*v_ref1, verif_in.has_parent ? &v_parent : NULL, 4);
	__CPROVER_assert(g_ok, "[C16] after a step of the walk every node of the subtree is height-balanced, every recorded height is exact and every parent link is consistent");
	__CPROVER_assert(*hnew - v_old >= -1 && *hnew - v_old <= 1, "[C16] a step of the walk changes the subtree height its parent recorded by at most one");
	g_seq_n = 0;
	inorder(*v_ref1, 4);
	__CPROVER_assert(g_seq_n == v_seqn0, "[C16] no node or subtree is lost or duplicated by a step of the walk");
	for (i = 0; i < NN; i++)
		if (i < v_seqn0)
			__CPROVER_assert(g_seq[i] == v_seq0[i], "[C16] a step of the walk preserves the in-order sequence (comparator order)");
	if (verif_in.has_parent) {
		__CPROVER_assert((v_path.is_left ? v_parent.right : v_parent.left) == (v_path.hs ? &v_sib : NULL) &&
				 v_sib.parent == &v_parent && v_sib.height == v_path.hs, "[C16] the sibling subtree is untouched");
		__CPROVER_assert(v_ref1 == (v_path.is_left ? &v_parent.left : &v_parent.right), "reference");
	} else {
		__CPROVER_assert(v_ptree.root == *v_ref1, "[C16] the root pointer follows a rotation at the root");
	}
}

/* contract of find_reference (proved in avl_find_reference); the second call is the next loop head */
struct iv_avl_node **verif_find_reference(struct iv_avl_tree *tree, const struct iv_avl_node *an)
{
	int hnew, m;

	g_fr_calls++;
	__CPROVER_assert(tree == &v_ptree, "[C16] the walk stays in its tree");
	if (g_fr_calls == 1) {
		__CPROVER_assert(an == &v_n[0], "[C16] the walk starts at the node it was given");
		return v_ref1;
	}
	/* second iteration, after its recalc_height */
	__CPROVER_assert(verif_in.has_parent && an == &v_parent, "[C16] the walk continues with the parent of the rebalanced subtree");
	path_check_subtree(&hnew);
	m = hnew > v_path.hs ? hnew : v_path.hs;
	__CPROVER_assert(v_parent.height == 1 + m, "[C16] the parent's height is recomputed from the new subtree height");
	__CPROVER_assert(hnew - v_path.hs >= -2 && hnew - v_path.hs <= 2, "[C16] so the parent is off balance by at most two when the walk reaches it, and its recorded height was consistent with the old subtree height: the loop-head state holds again one level up");
	__CPROVER_assume(0);
	return NULL;
}

void h_rebalance_path_step(void)
{
	struct verif_path_t nd;
	int hl, hr, hlo, hro, i, hnew, m;

	v_build();
	v_path = nd;
	hl = h0(1); hr = h0(2);
	/* witness of the state before the change */
	__CPROVER_assume(v_path.delta >= -1 && v_path.delta <= 1);
	hlo = hl - (v_path.s_left ? v_path.delta : 0);
	hro = hr - (v_path.s_left ? 0 : v_path.delta);
	__CPROVER_assume(hlo >= 0 && hro >= 0 && hlo - hro >= -1 && hlo - hro <= 1);
	v_old = 1 + (hlo > hro ? hlo : hro);
	v_n[0].height = v_old;
	/* the parent, consistent with the recorded height */
	v_ptree.root = &v_n[0];
	v_ref1 = &v_ptree.root;
	if (verif_in.has_parent) {
		__CPROVER_assume(v_path.hs <= 251 && v_old - v_path.hs >= -1 && v_old - v_path.hs <= 1);
		m = v_old > v_path.hs ? v_old : v_path.hs;
		v_parent.height = 1 + m;
		v_parent.parent = (struct iv_avl_node *)(uintptr_t)8;	/* everything above: not touched by one iteration */
		abstract_node(&v_sib, &v_parent, v_path.hs);
		if (v_path.is_left) {
			v_parent.left = &v_n[0];
			v_parent.right = v_path.hs ? &v_sib : NULL;
			v_ref1 = &v_parent.left;
		} else {
			v_parent.right = &v_n[0];
			v_parent.left = v_path.hs ? &v_sib : NULL;
			v_ref1 = &v_parent.right;
		}
		v_ptree.root = (struct iv_avl_node *)(uintptr_t)8;
	}
	g_seq_n = 0;
	inorder(&v_n[0], 4);
	v_seqn0 = g_seq_n;
	for (i = 0; i < NN; i++)
		v_seq0[i] = g_seq[i];
	g_fr_calls = 0;

	rebalance_path(&v_ptree, &v_n[0]);

	/* the walk has stopped */
	__CPROVER_assert(g_fr_calls == 1, "[C16] one step was taken");
	path_check_subtree(&hnew);
	if (verif_in.has_parent) {
		__CPROVER_assert(hnew == v_old, "[C16] the walk stops below the root only where the subtree height is what the parent recorded");
		m = hnew > v_path.hs ? hnew : v_path.hs;
		__CPROVER_assert(v_parent.height == 1 + m && hnew - v_path.hs >= -1 && hnew - v_path.hs <= 1,
				 "[C16] where the walk stops the parent is balanced with an exact recorded height, hence (nothing above was touched) so is every node of the tree");
	}
	CANARY();
}

/* ====================================================================
 * The state in which iv_avl_tree_insert starts the walk: the new node is a
 * correctly linked leaf in the empty place the search ended at, and the
 * loop-head state INV(p) holds at its parent with delta = +1.  The search
 * descends through `depth` <= 2 real nodes here (it only reads; the glue after
 * it touches the new node and the one pointer *pp); rebalance_path is replaced
 * by a stub that checks the state it is started in.
 * ================================================================== */
struct verif_ins_t {
	uint8_t	depth;		/* 0: empty tree, 1: p is the root, 2: p hangs from the root */
	_Bool	p_is_left;	/* where p hangs from the root (depth 2) */
	_Bool	go_left;	/* side of p the new node goes to */
	_Bool	p_has_other;	/* p's other child exists (a leaf: p was balanced with an empty side) */
	int	c1, c2;		/* magnitudes of the comparator verdicts along the search: any positive int */
	uint8_t	dup;		/* 0: the key is absent; k: the k-th node on the search path compares equal */
};
static struct verif_ins_t	v_ins;
static struct iv_avl_node	i_root, i_p, i_other, i_new, i_rsib;
static int			g_cmp_calls, g_rp_calls;

/* the comparator contract is only "negative, zero or positive": any magnitude */
static int ins_verdict(int left, int mag)
{
	return left ? -mag : mag;
}
static int ins_compare(const struct iv_avl_node *a, const struct iv_avl_node *b)
{
	g_cmp_calls++;
	__CPROVER_assert(a == &i_new, "[C16] the search compares the new node against nodes of the tree");
	__CPROVER_assert(v_ins.dup == 0 || g_cmp_calls <= v_ins.dup, "[C16] the search stops at a node that compares equal: nothing below it is looked at");
	if (v_ins.dup && g_cmp_calls == v_ins.dup)
		return 0;
	if (v_ins.depth == 2 && b == &i_root)
		return ins_verdict(v_ins.p_is_left, v_ins.c1);
	__CPROVER_assert(b == &i_p, "[C16] the search follows child links from the root");
	return ins_verdict(v_ins.go_left, v_ins.c2);
}

void verif_rebalance_path_pre(struct iv_avl_tree *tree, struct iv_avl_node *an)
{
	struct iv_avl_node *other = v_ins.p_has_other ? &i_other : NULL;

	g_rp_calls++;
	__CPROVER_assert(tree == &v_ptree, "tree");
	__CPROVER_assert(i_new.left == NULL && i_new.right == NULL && i_new.height == 1, "[C16] the new node is a leaf of height one whatever its link fields held before");
	if (v_ins.depth == 0) {
		__CPROVER_assert(an == NULL && v_ptree.root == &i_new && i_new.parent == NULL, "[C16] the first node becomes the root; there is no path to rebalance");
		return;
	}
	__CPROVER_assert(an == &i_p && i_new.parent == &i_p, "[C16] the walk starts at the new leaf's parent");
	__CPROVER_assert((v_ins.go_left ? i_p.left : i_p.right) == &i_new && (v_ins.go_left ? i_p.right : i_p.left) == other,
			 "[C16] the new leaf fills exactly the empty place the search ended at; the other child is untouched");
	__CPROVER_assert(i_p.height == (v_ins.p_has_other ? 2 : 1), "[C16] the parent's recorded height is the one from before the insertion: loop-head state with the new leaf's side grown by one");
	__CPROVER_assert(i_p.parent == (v_ins.depth == 2 ? &i_root : NULL) &&
			 (v_ins.depth == 2 ? (v_ins.p_is_left ? i_root.left : i_root.right) == &i_p && i_root.height == 3 : v_ptree.root == &i_p),
			 "[C16] nothing above the parent is touched before the walk");
}

void h_insert_base(void)
{
	struct verif_ins_t nd;
	int r;

	v_ins = nd;
	__CPROVER_assume(v_ins.depth <= 2);
	__CPROVER_assume(v_ins.c1 >= 1 && v_ins.c2 >= 1);
	__CPROVER_assume(v_ins.dup <= v_ins.depth);
	v_ptree.compare = ins_compare;
	g_cmp_calls = g_rp_calls = 0;
	/* stale link fields: the node may have been in a tree before */
	i_new.left = &i_rsib; i_new.right = &i_rsib; i_new.parent = &i_rsib; i_new.height = 9;
	i_other.left = NULL; i_other.right = NULL; i_other.height = 1; i_other.parent = &i_p;
	i_p.height = v_ins.p_has_other ? 2 : 1;
	i_p.left = v_ins.go_left ? NULL : (v_ins.p_has_other ? &i_other : NULL);
	i_p.right = v_ins.go_left ? (v_ins.p_has_other ? &i_other : NULL) : NULL;
	if (v_ins.depth == 0) {
		v_ptree.root = NULL;
	} else if (v_ins.depth == 1) {
		v_ptree.root = &i_p;
		i_p.parent = NULL;
	} else {
		v_ptree.root = &i_root;
		i_root.parent = NULL;
		i_root.height = 3;
		abstract_node(&i_rsib, &i_root, 2);
		i_root.left = v_ins.p_is_left ? &i_p : &i_rsib;
		i_root.right = v_ins.p_is_left ? &i_rsib : &i_p;
		i_p.parent = &i_root;
	}

	r = iv_avl_tree_insert(&v_ptree, &i_new);

	if (v_ins.dup) {
		__CPROVER_assert(r == -1 && g_rp_calls == 0 && g_cmp_calls == v_ins.dup, "[C16] a key that compares equal to a node on the search path -- an inner node with children included -- is refused at that node");
		__CPROVER_assert(i_new.left == &i_rsib && i_new.right == &i_rsib && i_new.parent == &i_rsib && i_new.height == 9, "[C16] a refused node is not touched");
		__CPROVER_assert(i_p.height == (v_ins.p_has_other ? 2 : 1) && (v_ins.go_left ? i_p.left : i_p.right) == NULL &&
				 (v_ins.go_left ? i_p.right : i_p.left) == (v_ins.p_has_other ? &i_other : NULL) &&
				 v_ptree.root == (v_ins.depth == 2 ? &i_root : &i_p) &&
				 IMPLIES(v_ins.depth == 2, (v_ins.p_is_left ? i_root.left : i_root.right) == &i_p && (v_ins.p_is_left ? i_root.right : i_root.left) == &i_rsib && i_root.height == 3),
				 "[C16] a refused insert changes nothing in the tree");
		CANARY();
		return;
	}
	__CPROVER_assert(r == 0, "[C16] inserting a key that compares unequal (by any negative or positive amount) to every node on the search path succeeds");
	__CPROVER_assert(g_rp_calls == 1 && g_cmp_calls == v_ins.depth, "[C16] one comparison per level, then one rebalancing walk");
	CANARY();
}

/* ====================================================================
 * iv_avl_tree_next / iv_avl_tree_prev / iv_avl_tree_min / iv_avl_tree_max on
 * every binary tree shape of at most three levels (positions 0..6, any subset
 * closed under "parent present"), not only balanced ones: the successor /
 * predecessor of every node is its neighbour in the in-order sequence, NULL
 * at the ends.  Bounded (three levels); seconds.
 * ================================================================== */
static int np_seq[8], np_n;
static void np_inorder(int i)
{
	if (i > 6 || !verif_in.present[i])
		return;
	np_inorder(2 * i + 1);
	np_seq[np_n++] = i;
	np_inorder(2 * i + 2);
}

void h_next_prev(void)
{
	int i, k;
	struct iv_avl_tree t;
	struct iv_avl_node *r;

	VERIF_IN_LOAD();
	__CPROVER_assume(verif_in.present[0]);
	for (i = 1; i < 7; i++)
		__CPROVER_assume(IMPLIES(verif_in.present[i], verif_in.present[(i - 1) / 2]));
	for (i = 0; i < 7; i++) {
		int l = 2 * i + 1, rr = 2 * i + 2;

		v_n[i].left = (l < 7 && verif_in.present[l]) ? &v_n[l] : NULL;
		v_n[i].right = (rr < 7 && verif_in.present[rr]) ? &v_n[rr] : NULL;
		v_n[i].parent = i ? &v_n[(i - 1) / 2] : NULL;
		v_n[i].height = 1;	/* not looked at by the traversal functions */
	}
	t.root = &v_n[0];
	t.compare = NULL;
	np_n = 0;
	np_inorder(0);
	__CPROVER_assert(np_n >= 1 && np_n <= 7, "harness: in-order sequence built");

	r = iv_avl_tree_min(&t);
	__CPROVER_assert(r == &v_n[np_seq[0]], "[C16] iv_avl_tree_min is the first node in comparator order");
	r = iv_avl_tree_max(&t);
	__CPROVER_assert(r == &v_n[np_seq[np_n - 1]], "[C16] iv_avl_tree_max is the last node in comparator order");
	for (k = 0; k < 7; k++) {
		if (k >= np_n)
			break;
		r = iv_avl_tree_next(&v_n[np_seq[k]]);
		__CPROVER_assert(r == (k + 1 < np_n ? &v_n[np_seq[k + 1]] : NULL), "[C16] iv_avl_tree_next is the in-order successor, NULL after the last node");
		r = iv_avl_tree_prev(&v_n[np_seq[k]]);
		__CPROVER_assert(r == (k > 0 ? &v_n[np_seq[k - 1]] : NULL), "[C16] iv_avl_tree_prev is the in-order predecessor, NULL before the first node");
	}
	CANARY();
}
