/*
 * Proof units for src/iv_fd.c: the descriptor API against the
 * backend-interface contract (DESIGN 5/C02.1, A.3).  Mode D.
 * C01, C02, C03, C07, C15, C18.
 */
/* fcntl() is variadic and goto-instrument --dfcc cannot pass its write set
 * through a variadic call: the calls in iv_fd.c are routed to a 3-argument
 * stub by this macro (the only textual deviation of this unit). */
#include <fcntl.h>
int verif_fcntl(int fd, int cmd, int arg);
#define fcntl(fd, cmd, ...)	verif_fcntl(fd, cmd, __VA_ARGS__ + 0)
#include "iv_fd.c"
#undef fcntl
#include "stubs/base.h"

#define FD(_fd)	((struct iv_fd_ *)(_fd))
#define SPEC_WANTED(f)							\
	((f)->registered ? (((f)->handler_in != NULL ? MASKIN : 0) |	\
			    ((f)->handler_out != NULL ? MASKOUT : 0) |	\
			    ((f)->handler_err != NULL ? MASKERR : 0)) : 0)

struct verif_in_t {
	int	numobjs, numfds;
	int	fdnum;
	_Bool	has_in, has_out, has_err;
	uint8_t	ready_bands, registered_bands, wanted_bands;
	uint8_t	active_shape;	/* 0 not in the ready batch, 1 its only element, 2 between two nodes */
	uint8_t	handled;	/* 0 nobody being dispatched, 1 this fd, 2 another fd */
	_Bool	new_handler;
	int	sync_ret;
	_Bool	bi_has_register, bi_has_unregister;
	int	fdflags, flflags;
	int	bands;
	int	sockopt_ret;
} verif_in;

static struct iv_state		v_state;
static struct iv_fd_		v_fd, v_other;
static struct iv_list_head	v_a1, v_a2;	/* neighbours in the ready batch */
static struct iv_fd_poll_method	v_bi;

/* ---- ghost state of the backend interface and of the descriptor --------- */
int g_told;		/* wanted_bands the backend was last told about, -1 = never */
int g_notify_calls, g_sync_calls, g_unreg_calls, g_reg_calls;
int g_fdflags, g_flflags;	/* F_GETFD / F_GETFL view of the descriptor */
int g_fcntl_fd;

static void v_h_in(void *c) { }
static void v_h_out(void *c) { }
static void v_h_err(void *c) { }

static void bi_register_fd(struct iv_state *st, struct iv_fd_ *fd)
{
	__CPROVER_assert(st == verif_st && fd->registered, "backend register hook sees the fd as registered");
	g_reg_calls++;
}

static void bi_notify_fd(struct iv_state *st, struct iv_fd_ *fd)
{
	__CPROVER_assert(st == verif_st, "backend called with this thread's state");
	__CPROVER_assert(fd->wanted_bands == SPEC_WANTED(fd), "[C02] the poll method is told exactly the bands that have a handler (recomputed before every notification)");
	g_told = fd->wanted_bands;
	g_notify_calls++;
}

static int bi_notify_fd_sync(struct iv_state *st, struct iv_fd_ *fd)
{
	__CPROVER_assert(st == verif_st && fd->registered, "backend sync hook sees the fd as registered");
	__CPROVER_assert(fd->wanted_bands != 0, "[C07,C15] the synchronous probe always asks the kernel for at least one band, so a bad descriptor is detected");
	g_sync_calls++;
	if (verif_in.sync_ret == 0) {
		g_told = fd->wanted_bands;
		return 0;
	}
	return -1;
}

static void bi_unregister_fd(struct iv_state *st, struct iv_fd_ *fd)
{
	__CPROVER_assert(st == verif_st && !fd->registered, "[C01] backend unregister hook runs after the fd was marked unregistered");
	g_unreg_calls++;
}

int verif_fcntl(int fd, int cmd, int arg)
{
	g_fcntl_fd = fd;
	if (cmd == F_GETFD)
		return g_fdflags;
	if (cmd == F_GETFL)
		return g_flflags;
	if (cmd == F_SETFD)
		g_fdflags = arg;
	else if (cmd == F_SETFL)
		g_flflags = arg;
	return 0;
}

int STUB(setsockopt)(int fd, int level, int optname, const void *optval, socklen_t optlen)
{
	return verif_in.sockopt_ret;
}

static void v_build(void)
{
	VERIF_IN_LOAD();
	verif_st = &v_state;
	v_state.numobjs = verif_in.numobjs;
	v_state.numfds = verif_in.numfds;
	method = &v_bi;
	v_bi.register_fd = verif_in.bi_has_register ? bi_register_fd : NULL;
	v_bi.unregister_fd = verif_in.bi_has_unregister ? bi_unregister_fd : NULL;
	v_bi.notify_fd = bi_notify_fd;
	v_bi.notify_fd_sync = bi_notify_fd_sync;
	g_told = -1;
	g_notify_calls = g_sync_calls = g_unreg_calls = g_reg_calls = 0;
	__CPROVER_assume(verif_in.fdflags >= 0 && verif_in.flflags >= 0);
	g_fdflags = verif_in.fdflags;
	g_flflags = verif_in.flflags;
	g_fcntl_fd = -1;

	v_fd.fd = verif_in.fdnum;
	v_fd.cookie = &v_fd;
	v_fd.handler_in = verif_in.has_in ? v_h_in : NULL;
	v_fd.handler_out = verif_in.has_out ? v_h_out : NULL;
	v_fd.handler_err = verif_in.has_err ? v_h_err : NULL;
	v_fd.ready_bands = verif_in.ready_bands;
	v_fd.registered_bands = verif_in.registered_bands;
	v_fd.wanted_bands = verif_in.wanted_bands;
	v_fd.registered = 0;
	/* stale pointers of a struct that was used before (struct reuse, C03) */
	v_fd.list_active.next = &v_a1;
	v_fd.list_active.prev = &v_a2;
	v_state.handled_fd = NULL;
}

/* registered fd in any dispatch situation */
static void v_build_registered(void)
{
	v_build();
	v_fd.registered = 1;
	__CPROVER_assume(verif_in.numobjs >= 1 && verif_in.numfds >= 1);
	__CPROVER_assume(verif_in.active_shape <= 2 && verif_in.handled <= 2);
	__CPROVER_assume(verif_in.fdnum >= 0);
	v_fd.wanted_bands = SPEC_WANTED(&v_fd);
	if (verif_in.active_shape == 0) {
		v_fd.list_active.next = &v_fd.list_active;
		v_fd.list_active.prev = &v_fd.list_active;
	} else if (verif_in.active_shape == 1) {
		v_fd.list_active.next = &v_a1;
		v_fd.list_active.prev = &v_a1;
		v_a1.next = &v_fd.list_active;
		v_a1.prev = &v_fd.list_active;
	} else {
		v_fd.list_active.prev = &v_a1;
		v_fd.list_active.next = &v_a2;
		v_a1.next = &v_fd.list_active;
		v_a2.prev = &v_fd.list_active;
		v_a1.prev = &v_a2;
		v_a2.next = &v_a1;
	}
	v_state.handled_fd = (verif_in.handled == 0) ? NULL :
			     (verif_in.handled == 1) ? &v_fd : &v_other;
}

#define FRESH_DISPATCH_STATE(f)						\
	((f)->list_active.next == &(f)->list_active && (f)->list_active.prev == &(f)->list_active && \
	 (f)->ready_bands == 0 && (f)->registered_bands == 0)

/* ------------------------------------------------------------------ */
void iv_fd_register__contract(struct iv_fd *_fd)
__CPROVER_requires(!FD(_fd)->registered && FD(_fd)->fd >= 0)
__CPROVER_requires(verif_st->numobjs >= 0 && verif_st->numobjs < INT_MAX && verif_st->numfds >= 0 && verif_st->numfds < INT_MAX)
__CPROVER_assigns(verif_st->numobjs, verif_st->numfds,
		  FD(_fd)->registered, FD(_fd)->list_active, FD(_fd)->ready_bands, FD(_fd)->registered_bands,
		  FD(_fd)->wanted_bands, FD(_fd)->list_notify, FD(_fd)->u,
		  g_told, g_notify_calls, g_reg_calls, g_fdflags, g_flflags, g_fcntl_fd)
__CPROVER_ensures(FD(_fd)->registered == 1)
__CPROVER_ensures(FRESH_DISPATCH_STATE(FD(_fd)))	/* [C03] registration resets the per-fd dispatch state: not in any batch, no stale readiness bits (struct reuse) */
__CPROVER_ensures(FD(_fd)->wanted_bands == SPEC_WANTED(FD(_fd)) && g_told == FD(_fd)->wanted_bands && g_notify_calls == 1)	/* [C02] wanted bands computed from the handlers and handed to the poll method */
__CPROVER_ensures(verif_st->numobjs == __CPROVER_old(verif_st->numobjs) + 1 && verif_st->numfds == __CPROVER_old(verif_st->numfds) + 1)	/* [C07] accounting: +1 */
__CPROVER_ensures((g_fdflags & FD_CLOEXEC) && (g_flflags & O_NONBLOCK) && g_fcntl_fd == FD(_fd)->fd)	/* [C18] registered descriptors are switched to close-on-exec, non-blocking */
__CPROVER_ensures((g_fdflags | FD_CLOEXEC) == (__CPROVER_old(g_fdflags) | FD_CLOEXEC) && (g_flflags | O_NONBLOCK) == (__CPROVER_old(g_flflags) | O_NONBLOCK))	/* [C18] no other descriptor flag is changed */
;

void h_iv_fd_register(void)
{
	v_build();
	CALL(iv_fd_register)((struct iv_fd *)&v_fd);
	CANARY();
}

/* ------------------------------------------------------------------ */
int iv_fd_register_try__contract(struct iv_fd *_fd)
__CPROVER_requires(!FD(_fd)->registered && FD(_fd)->fd >= 0)
__CPROVER_requires(verif_st->numobjs >= 0 && verif_st->numobjs < INT_MAX && verif_st->numfds >= 0 && verif_st->numfds < INT_MAX)
__CPROVER_assigns(verif_st->numobjs, verif_st->numfds,
		  FD(_fd)->registered, FD(_fd)->list_active, FD(_fd)->ready_bands, FD(_fd)->registered_bands,
		  FD(_fd)->wanted_bands, FD(_fd)->list_notify, FD(_fd)->u,
		  g_told, g_notify_calls, g_sync_calls, g_reg_calls, g_unreg_calls, g_fdflags, g_flflags, g_fcntl_fd)
__CPROVER_ensures(__CPROVER_return_value == 0 || __CPROVER_return_value == -1)
__CPROVER_ensures(IFF(__CPROVER_return_value == 0, verif_in.sync_ret == 0) && g_sync_calls == 1)	/* [C07,C15] succeeds iff the kernel accepted the descriptor */
__CPROVER_ensures(IMPLIES(__CPROVER_return_value != 0,
	FD(_fd)->registered == 0 &&
	verif_st->numobjs == __CPROVER_old(verif_st->numobjs) && verif_st->numfds == __CPROVER_old(verif_st->numfds) &&
	FD(_fd)->list_active.next == &FD(_fd)->list_active &&
	g_unreg_calls == (verif_in.bi_has_unregister ? 1 : 0)))	/* [C07] a failed try leaves the loop exactly as it was: not registered, not counted, backend state released */
__CPROVER_ensures(IMPLIES(__CPROVER_return_value == 0,
	FD(_fd)->registered == 1 && FRESH_DISPATCH_STATE(FD(_fd)) &&
	FD(_fd)->wanted_bands == SPEC_WANTED(FD(_fd)) && g_told == FD(_fd)->wanted_bands &&
	verif_st->numobjs == __CPROVER_old(verif_st->numobjs) + 1 && verif_st->numfds == __CPROVER_old(verif_st->numfds) + 1 &&
	(g_fdflags & FD_CLOEXEC) && (g_flflags & O_NONBLOCK)))	/* [C02,C03,C07,C18] on success: same post-state as iv_fd_register */
;

void h_iv_fd_register_try(void)
{
	int r;

	v_build();
	r = CALL(iv_fd_register_try)((struct iv_fd *)&v_fd);
	CANARY();
}

/* ------------------------------------------------------------------ */
void iv_fd_unregister__contract(struct iv_fd *_fd)
__CPROVER_requires(FD(_fd)->registered && WF_NODE(&FD(_fd)->list_active))
__CPROVER_requires(verif_st->numobjs >= 1 && verif_st->numfds >= 1)
__CPROVER_assigns(verif_st->numobjs, verif_st->numfds, verif_st->handled_fd,
		  FD(_fd)->registered, FD(_fd)->list_active, FD(_fd)->wanted_bands,
		  FD(_fd)->list_active.prev->next, FD(_fd)->list_active.next->prev,
		  g_told, g_notify_calls, g_unreg_calls)
__CPROVER_ensures(FD(_fd)->registered == 0)
__CPROVER_ensures(__CPROVER_old(FD(_fd)->list_active.next) == &FD(_fd)->list_active ||
	(__CPROVER_old(FD(_fd)->list_active.prev)->next == __CPROVER_old(FD(_fd)->list_active.next) &&
	 __CPROVER_old(FD(_fd)->list_active.next)->prev == __CPROVER_old(FD(_fd)->list_active.prev)))	/* [C01] an fd already collected for dispatch leaves the ready batch */
__CPROVER_ensures(verif_st->handled_fd != FD(_fd) &&
	IMPLIES(__CPROVER_old(verif_st->handled_fd) != FD(_fd), verif_st->handled_fd == __CPROVER_old(verif_st->handled_fd)))	/* [C01] the being-dispatched marker is cleared iff it pointed at this fd */
__CPROVER_ensures(FD(_fd)->wanted_bands == 0 && g_told == 0 && g_notify_calls == 1)	/* [C01,C02] the poll method is told to drop every band of the fd */
__CPROVER_ensures(g_unreg_calls == (verif_in.bi_has_unregister ? 1 : 0))	/* [C01] then its unregister hook runs (kernel deregistration is pushed synchronously) */
__CPROVER_ensures(verif_st->numobjs == __CPROVER_old(verif_st->numobjs) - 1 && verif_st->numfds == __CPROVER_old(verif_st->numfds) - 1)	/* [C07] accounting: -1 */
;

void h_iv_fd_unregister(void)
{
	v_build_registered();
	CALL(iv_fd_unregister)((struct iv_fd *)&v_fd);
	CANARY();
}

/* ------------------------------------------------------------------ */
#define SET_HANDLER_CONTRACT(band, field)							\
void iv_fd_set_handler_##band##__contract(struct iv_fd *_fd, void (*h)(void *))		\
__CPROVER_requires(FD(_fd)->registered)								\
__CPROVER_assigns(FD(_fd)->field, FD(_fd)->wanted_bands, g_told, g_notify_calls)		\
__CPROVER_ensures(FD(_fd)->field == h)								\
__CPROVER_ensures(FD(_fd)->wanted_bands == SPEC_WANTED(FD(_fd)) && g_told == FD(_fd)->wanted_bands && g_notify_calls == 1)	/* [C02] every handler change recomputes the wanted bands and notifies the poll method */ \
;

SET_HANDLER_CONTRACT(in, handler_in)
SET_HANDLER_CONTRACT(out, handler_out)
SET_HANDLER_CONTRACT(err, handler_err)

void h_iv_fd_set_handler_in(void)
{
	v_build_registered();
	CALL(iv_fd_set_handler_in)((struct iv_fd *)&v_fd, verif_in.new_handler ? v_h_in : NULL);
	CANARY();
}

void h_iv_fd_set_handler_out(void)
{
	v_build_registered();
	CALL(iv_fd_set_handler_out)((struct iv_fd *)&v_fd, verif_in.new_handler ? v_h_out : NULL);
	CANARY();
}

void h_iv_fd_set_handler_err(void)
{
	v_build_registered();
	CALL(iv_fd_set_handler_err)((struct iv_fd *)&v_fd, verif_in.new_handler ? v_h_err : NULL);
	CANARY();
}

/* ------------------------------------------------------------------ */
void iv_fd_make_ready__contract(struct iv_list_head *active, struct iv_fd_ *fd, int bands)
__CPROVER_requires(bands == MASKIN || bands == MASKOUT || bands == MASKERR)
__CPROVER_requires(WF_NODE(&fd->list_active) && WF_NODE(active))
__CPROVER_assigns(fd->ready_bands, fd->list_active, active->prev, active->prev->next)
__CPROVER_ensures(fd->ready_bands ==
	((__CPROVER_old(fd->list_active.next) == &fd->list_active ? 0 : __CPROVER_old(fd->ready_bands)) | bands))	/* [C03] readiness bits of earlier iterations are dropped when the fd first joins this iteration's batch; within the batch bands accumulate */
__CPROVER_ensures(IMPLIES(__CPROVER_old(fd->list_active.next) == &fd->list_active,
	fd->list_active.next == active && active->prev == &fd->list_active &&
	fd->list_active.prev == __CPROVER_old(active->prev) && __CPROVER_old(active->prev)->next == &fd->list_active))	/* [C03] appended to the batch exactly once */
__CPROVER_ensures(IMPLIES(__CPROVER_old(fd->list_active.next) != &fd->list_active,
	fd->list_active.next == __CPROVER_old(fd->list_active.next) && fd->list_active.prev == __CPROVER_old(fd->list_active.prev) &&
	active->prev == __CPROVER_old(active->prev)))
;

static struct iv_list_head v_active;

void h_iv_fd_make_ready(void)
{
	v_build_registered();
	/* the batch head: v_a1 doubles as the head when the fd is in the batch */
	if (verif_in.active_shape == 0) {
		if (verif_in.handled == 0) {
			INIT_IV_LIST_HEAD(&v_active);
		} else {
			v_active.next = &v_a1; v_active.prev = &v_a2;
			v_a1.prev = &v_active; v_a2.next = &v_active;
			v_a1.next = &v_a2; v_a2.prev = &v_a1;
		}
		CALL(iv_fd_make_ready)(&v_active, &v_fd, verif_in.bands);
	} else {
		CALL(iv_fd_make_ready)(&v_a1, &v_fd, verif_in.bands);
	}
	CANARY();
}

/* ------------------------------------------------------------------ */
void iv_fd_set_cloexec__contract(int fd)
__CPROVER_assigns(g_fdflags, g_fcntl_fd)
__CPROVER_ensures((g_fdflags & FD_CLOEXEC) && (g_fdflags | FD_CLOEXEC) == (__CPROVER_old(g_fdflags) | FD_CLOEXEC))	/* [C18] */
;
void iv_fd_set_nonblock__contract(int fd)
__CPROVER_assigns(g_flflags, g_fcntl_fd)
__CPROVER_ensures((g_flflags & O_NONBLOCK) && (g_flflags | O_NONBLOCK) == (__CPROVER_old(g_flflags) | O_NONBLOCK))	/* [C18] */
;

void h_iv_fd_set_cloexec(void) { v_build(); CALL(iv_fd_set_cloexec)(verif_in.fdnum); CANARY(); }
void h_iv_fd_set_nonblock(void) { v_build(); CALL(iv_fd_set_nonblock)(verif_in.fdnum); CANARY(); }

/* ------------------------------------------------------------------ */
void IV_FD_INIT__contract(struct iv_fd *_fd)
__CPROVER_assigns(FD(_fd)->fd, FD(_fd)->handler_in, FD(_fd)->handler_out, FD(_fd)->handler_err, FD(_fd)->registered)
__CPROVER_ensures(FD(_fd)->fd == -1 && FD(_fd)->handler_in == NULL && FD(_fd)->handler_out == NULL && FD(_fd)->handler_err == NULL && FD(_fd)->registered == 0)
;
void h_IV_FD_INIT(void) { v_build(); CALL(IV_FD_INIT)((struct iv_fd *)&v_fd); CANARY(); }
