/*
 * Bounded unit for iv_run_timers (src/iv_timer.c) with a most general client.
 * NT heap-allocated timers with symbolic expiries, symbolic loop clock.  Every
 * handler call may unregister (and free) any timer -- also ones that have
 * expired and wait in the batch -- or register an unregistered one.
 * C04, C05, C01, C07, C18.  Mode S.
 *
 * What is under test here is iv_run_timers itself (pop while the root is due,
 * batch, mark, dispatch).  The calls it and the client make to
 * iv_timer_register / iv_timer_unregister are redirected (goto-instrument
 * --replace-calls) to stubs that implement those functions' contracts on an
 * abstract store: "the registered timers are a set, slot 1 of the first leaf
 * holds one with minimal expiry and index 1, every other registered timer has
 * an index > 1" -- which is what the heap units (h_iv_timer_heap.c) and the
 * glue units (h_iv_timer.c) establish for the real functions.  (Running the
 * real heap code inside this unit exhausts memory: symbolic slot pointers into
 * the 1.3 KB struct iv_state.)  The unit is compiled against a copy of
 * iv_private_posix.h in which the `union` of the ratnode member is a `struct`
 * (CBMC loses pointers read through a non-canonical union member).
 * The native replay uses the unmodified header and the real functions.
 */
#include "iv_timer.c"
#include "stubs/base.h"

#ifndef NT
#define NT 2
#endif

struct verif_in_t {
	long	sec[NT], nsec[NT];
	long	now_sec, now_nsec;
	_Bool	reg[NT];
	uint8_t	act[NT + 1], who[NT + 1];
	int	numobjs;
	uint8_t	tie;
} verif_in;

static struct iv_state	v_state;
static struct iv_timer_	*v_t[NT];
static _Bool	g_freed[NT], g_pending[NT], g_round[NT], g_inheap[NT];
static int	g_runs[NT], g_ncall, g_expected;

void iv_time_get(struct timespec *t) { t->tv_sec = verif_in.now_sec; t->tv_nsec = verif_in.now_nsec; }

/* ---- abstract store: contracts of iv_timer_register / iv_timer_unregister ---- */
static void s_reroot(struct iv_state *st)
{
	int i, best = -1, k = 2;

	for (i = 0; i < NT; i++) {
		if (!g_inheap[i])
			continue;
		if (best < 0 || timespec_gt(&v_t[best]->expires, &v_t[i]->expires) ||
		    (!timespec_gt(&v_t[i]->expires, &v_t[best]->expires) && ((verif_in.tie >> i) & 1)))
			best = i;	/* among equal expiries the heap may hold any one at the root */
	}
	for (i = 0; i < NT; i++)
		if (g_inheap[i])
			v_t[i]->index = (i == best) ? 1 : k++;
	st->ratnode.first_leaf.child[1] = (best >= 0) ? v_t[best] : NULL;
}

static int s_which(struct iv_timer_ *t)
{
	int i;
	for (i = 0; i < NT; i++)
		if (!g_freed[i] && v_t[i] == t)
			return i;
	return -1;
}

void s_timer_register(struct iv_timer *_t)
{
	struct iv_timer_ *t = (struct iv_timer_ *)_t;
	int i = s_which(t);

	__CPROVER_assert(i >= 0 && t->index == -1, "[C04] iv_timer_register is called on an unregistered timer");
	verif_st->numobjs++;
	verif_st->num_timers++;
	g_inheap[i] = 1;
	s_reroot(verif_st);
}

void s_timer_unregister(struct iv_timer *_t)
{
	struct iv_timer_ *t = (struct iv_timer_ *)_t;
	int i = s_which(t);

	__CPROVER_assert(i >= 0 && t->index != -1, "[C04] iv_timer_unregister is called on a registered timer");
	if (t->index > 0) {
		__CPROVER_assert(g_inheap[i], "timer with a positive index is in the store");
		g_inheap[i] = 0;
		verif_st->num_timers--;
		verif_st->numobjs--;
		s_reroot(verif_st);
	} else {
		iv_list_del(&t->list_expired);	/* expired batch arm: proved on the real code in unit timer_unregister_expired */
	}
	t->index = -1;
}

static int due(int i)
{
	struct timespec e;
	e.tv_sec = verif_in.sec[i]; e.tv_nsec = verif_in.nsec[i];
	return !timespec_gt(&e, &v_state.time);
}

static void mgc_timer(void *cookie)
{
	int i = (int)(intptr_t)cookie;
	int j;

	__CPROVER_assert(i >= 0 && i < NT, "[C04] handler called with the timer's own cookie");
	__CPROVER_assert(!g_freed[i], "[C01] no handler call for a timer that was unregistered (and freed)");
	__CPROVER_assert(g_pending[i] && g_round[i], "[C04,C01] handler runs only for a registration that was live when the round began and was not unregistered since");
	__CPROVER_assert(g_runs[i] == 0, "[C04] a timer fires at most once per registration");
	__CPROVER_assert(v_t[i]->index == -1, "[C04,C01] the timer is already unregistered on entry to its handler");
	__CPROVER_assert(due(i), "[C04] never early: the loop clock is at or past the expiry");
	for (j = 0; j < NT; j++) {
		if (j != i && g_round[j] && g_pending[j] && !g_freed[j]) {
			struct timespec ei, ej;
			ei.tv_sec = verif_in.sec[i]; ei.tv_nsec = verif_in.nsec[i];
			ej.tv_sec = verif_in.sec[j]; ej.tv_nsec = verif_in.nsec[j];
			__CPROVER_assert(!timespec_gt(&ei, &ej), "[C05] no timer runs while another one with a strictly earlier expiry (registered before the round) is still waiting");
		}
	}
	g_runs[i]++;
	g_pending[i] = 0;

	if (g_ncall <= NT) {
		uint8_t a = verif_in.act[g_ncall];

		j = verif_in.who[g_ncall];	/* one action on one timer per handler call */
		if (j >= 0 && j < NT && !g_freed[j]) {
			if ((a == 1 || a == 2) && v_t[j]->index != -1) {
				if (v_t[j]->index > 0)
					g_expected--;	/* still counted: not yet popped */
				iv_timer_unregister((struct iv_timer *)v_t[j]);
				g_pending[j] = 0;
				if (a == 2) {
					free(v_t[j]);
					g_freed[j] = 1;
				}
			} else if (a == 3 && v_t[j]->index == -1) {
				iv_timer_register((struct iv_timer *)v_t[j]);
				g_pending[j] = 1;
				g_round[j] = 0;		/* registered during the round: runs in a later one */
				g_expected++;
			}
		}
	}
	g_ncall++;
}

void h_iv_run_timers(void)
{
	int i;

	VERIF_IN_LOAD();
	verif_st = &v_state;
	__CPROVER_assume(verif_in.numobjs >= 0 && verif_in.numobjs < 1000);
	__CPROVER_assume(verif_in.now_nsec >= 0 && verif_in.now_nsec < 1000000000);
	v_state.numobjs = verif_in.numobjs;
	v_state.num_timers = 0;
	v_state.rat_depth = 0;
	iv_timer_init(&v_state);
	v_state.time.tv_sec = verif_in.now_sec;
	v_state.time.tv_nsec = verif_in.now_nsec;
	v_state.time_valid = 1;
	for (i = 0; i < NT; i++) {
		__CPROVER_assume(verif_in.nsec[i] >= 0 && verif_in.nsec[i] < 1000000000);
		v_t[i] = malloc(sizeof(struct iv_timer_));
		__CPROVER_assume(v_t[i] != NULL);
		v_t[i]->expires.tv_sec = verif_in.sec[i];
		v_t[i]->expires.tv_nsec = verif_in.nsec[i];
		v_t[i]->cookie = (void *)(intptr_t)i;
		v_t[i]->handler = mgc_timer;
		v_t[i]->index = -1;
	}
	for (i = 0; i < NT; i++) {
		if (verif_in.reg[i]) {
			iv_timer_register((struct iv_timer *)v_t[i]);
			g_pending[i] = 1;
			g_round[i] = 1;
		}
	}
	g_expected = v_state.numobjs;
	for (i = 0; i < NT; i++)
		if (g_round[i] && due(i))
			g_expected--;		/* popped (auto-unregistered) by this round */

	iv_run_timers(&v_state);

	__CPROVER_assert(v_state.numobjs == g_expected, "[C07] object count exact: every popped timer is un-counted exactly once");
	for (i = 0; i < NT; i++) {
		if (g_freed[i])
			continue;
		__CPROVER_assert(IMPLIES(g_round[i] && g_pending[i], !due(i)), "[C04] every timer that was due and was not unregistered has fired in this round");
		__CPROVER_assert(IMPLIES(g_round[i] && g_pending[i], v_t[i]->index >= 1), "[C04,C05] a timer that is not yet due stays registered");
		__CPROVER_assert(IMPLIES(!g_pending[i], v_t[i]->index == -1), "[C04] fired or unregistered timers read as unregistered");
		__CPROVER_assert(v_t[i]->index != 0, "[C01] no timer is left in the expired batch");
	}
	CANARY();
}
