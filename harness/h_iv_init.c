/*
 * Units for src/iv_main_posix.c init / deinit / thread-exit destructor (C18):
 * acquisition and release order.  Mode S; the per-subsystem init/deinit
 * functions are ghost stubs that log their order.
 */
#include <stdlib.h>
void *verif_calloc(size_t n, size_t s);
void verif_free(void *p);
#define calloc(n, s)	verif_calloc(n, s)
#define free(p)		verif_free(p)
#define VERIF_HAVE_IV_MAIN
#include "iv_main_posix.c"
#undef calloc
#undef free
#include "stubs/base.h"

struct verif_in_t {
	_Bool	key_allocated;
	int	key_create_ret;
	int	quit;
} verif_in;

static int g_seq, g_at_fd_init, g_at_task_init, g_at_timer_init, g_at_event_init, g_at_tls_init;
static int g_at_tls_deinit, g_at_event_deinit, g_at_fd_deinit, g_at_timer_deinit, g_at_free, g_at_setnull;
static int g_allocs, g_frees, g_key_creates; static void *g_block; static size_t g_block_size;

void *verif_calloc(size_t n, size_t s) { void *p = calloc(n, s); __CPROVER_assume(p != NULL); g_allocs++; g_block = p; g_block_size = n * s; return p; }
void verif_free(void *p) { __CPROVER_assert(p == g_block, "[C18] the state block is what is freed"); g_frees++; g_at_free = ++g_seq; free(p); }
int iv_tls_total_state_size(void) { return 2048; }
void iv_fd_init(struct iv_state *st) { __CPROVER_assert(st == verif_st, "[C18] subsystems are initialised on the state stored under the thread's key"); g_at_fd_init = ++g_seq; }
void iv_task_init(struct iv_state *st) { g_at_task_init = ++g_seq; }
void iv_timer_init(struct iv_state *st) { g_at_timer_init = ++g_seq; }
void iv_event_init(struct iv_state *st) { g_at_event_init = ++g_seq; }
void iv_tls_thread_init(struct iv_state *st) { g_at_tls_init = ++g_seq; }
void iv_tls_thread_deinit(struct iv_state *st) { __CPROVER_assert(st == (struct iv_state *)g_block && verif_st == st, "[C18] module hooks run while the state is still the thread's current one"); g_at_tls_deinit = ++g_seq; }
void iv_event_deinit(struct iv_state *st) { g_at_event_deinit = ++g_seq; }
void iv_fd_deinit(struct iv_state *st) { g_at_fd_deinit = ++g_seq; }
void iv_timer_deinit(struct iv_state *st) { g_at_timer_deinit = ++g_seq; }
int STUB(pthread_key_create)(pthread_key_t *k, void (*d)(void *))
{
	__CPROVER_assert(d == iv_state_destructor, "[C18] a thread that exits without iv_deinit is cleaned up by the key destructor");
	g_key_creates++;
	return verif_in.key_create_ret;
}
void iv_run_timers(struct iv_state *st) { }
void iv_run_tasks(struct iv_state *st) { }
int iv_fd_poll_and_run(struct iv_state *st, const struct timespec *abs) { return 1; }
const struct timespec *iv_get_soonest_timeout(const struct iv_state *st) { return NULL; }

static void check_deinit_order(void)
{
	__CPROVER_assert(g_at_tls_deinit && g_at_event_deinit && g_at_fd_deinit && g_at_timer_deinit && g_at_free, "[C18] every subsystem is torn down and the block is freed");
	__CPROVER_assert(g_at_tls_deinit < g_at_event_deinit && g_at_event_deinit < g_at_fd_deinit && g_at_fd_deinit < g_at_timer_deinit && g_at_timer_deinit < g_at_free,
			 "[C18] tear-down order: module hooks, events, poll method, timers, then the state block");
	__CPROVER_assert(verif_st == NULL && g_frees == 1, "[C18] the thread has no loop state afterwards; the block is freed exactly once");
}

void h_init_deinit(void)
{
	VERIF_IN_LOAD();
	verif_st = NULL;
	iv_state_key_allocated = verif_in.key_allocated ? 1 : 0;
	__CPROVER_assume(verif_in.key_create_ret == 0);	/* key exhaustion is fatal by design */
	iv_init();
	__CPROVER_assert(g_key_creates == (verif_in.key_allocated ? 0 : 1) && iv_state_key_allocated == 1, "[C18] the TLS key is allocated once per process");
	__CPROVER_assert(g_allocs == 1 && verif_st == (struct iv_state *)g_block && g_block_size == 2048, "[C18] one zeroed block of the total state size becomes the thread's loop state");
	__CPROVER_assert(g_at_fd_init && g_at_task_init && g_at_timer_init && g_at_event_init && g_at_tls_init, "[C18,C06] every subsystem of the thread's loop state is initialised");
	__CPROVER_assert(g_at_fd_init < g_at_event_init, "[C18,C08] the poll method is chosen before the event subsystem asks it for a kick transport");
	__CPROVER_assert(g_at_fd_init < g_at_tls_init && g_at_task_init < g_at_tls_init && g_at_timer_init < g_at_tls_init && g_at_event_init < g_at_tls_init,
			 "[C18,C06,C04,C08] descriptors, tasks, timers and events are all initialised before the module hooks run: a hook is user code and may register any of them");
	__CPROVER_assert(iv_inited(), "[C18] iv_inited reports an initialised thread");
	iv_deinit();
	check_deinit_order();
	__CPROVER_assert(!iv_inited(), "[C18] and an uninitialised one afterwards");
	CANARY();
}

void h_thread_exit_destructor(void)
{
	VERIF_IN_LOAD();
	verif_st = NULL;
	iv_state_key_allocated = 1;
	iv_init();
	/* POSIX clears the key's value before calling the destructor with the old value */
	{ void *old = verif_st; verif_st = NULL; iv_state_destructor(old); }
	check_deinit_order();
	CANARY();
}

void h_quit(void)
{
	static struct iv_state st;

	VERIF_IN_LOAD();
	verif_st = &st;
	st.quit = verif_in.quit;
	iv_quit();
	__CPROVER_assert(st.quit == 1, "[C07] iv_quit requests the loop to return");
	CANARY();
}
