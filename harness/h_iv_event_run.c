/*
 * Bounded unit for __iv_event_run_pending_events (src/iv_event.c) with a most
 * general client (C08, C01, C18).  NEV heap-allocated events, any subset
 * pending; each handler call may post any event (real iv_event_post, owner
 * thread), unregister any event (real iv_event_unregister) and free it.
 * Sequential: the mutex stub only records ownership.  Mode S.
 */
#include "iv_event.c"
#include "stubs/base.h"
#include "stubs/lock.h"

#ifndef NEV
#define NEV 2
#endif

struct verif_in_t {
	_Bool	pending[NEV];
	uint8_t	act[NEV + 1], who[NEV + 1];
	uint8_t	order;
	_Bool	use_raw;
} verif_in;

static struct iv_state		v_state;
static struct iv_event		*v_e[NEV];
static struct iv_fd_poll_method	v_method;
const struct iv_fd_poll_method	*method;
static _Bool	g_freed[NEV];
static int	g_owed[NEV];	/* posts not yet answered by a handler run (0 or 1: posts coalesce) */
static int	g_runs[NEV], g_calls, g_task_reg, g_local_registered;

int iv_task_registered(const struct iv_task *t) { return g_local_registered; }
void iv_task_register(struct iv_task *t) { g_local_registered = 1; g_task_reg++; }
void IV_TASK_INIT(struct iv_task *t) { }
void iv_event_raw_post(const struct iv_event_raw *r) { }
int iv_event_raw_register(struct iv_event_raw *r) { return 0; }
void iv_event_raw_unregister(struct iv_event_raw *r) { }
static void v_rx_off(struct iv_state *st) { st->numobjs--; }
static void v_send(struct iv_state *st) { }

static int on_pending(struct iv_event *e)
{
	struct iv_list_head *p;
	int k;

	p = v_state.events_pending.next;
	for (k = 0; k < NEV + 1; k++) {
		if (p == &v_state.events_pending)
			return 0;
		if (p == &e->list)
			return 1;
		p = p->next;
	}
	return 0;
}

static void mgc_event(void *cookie)
{
	int i = (int)(intptr_t)cookie, j;

	__CPROVER_assert(i >= 0 && i < NEV && !g_freed[i], "[C01,C08] no handler call for an event that was unregistered (and freed)");
	__CPROVER_assert(!g_lock_held, "[C08] handlers run without the event-list mutex");
	__CPROVER_assert(g_owed[i] == 1, "[C08] a handler runs only to answer a post: never more often than posts were made");
	__CPROVER_assert(iv_list_empty(&v_e[i]->list), "[C08] the event is unlinked before its handler, so a post during the handler queues it again");
	g_owed[i] = 0;
	g_runs[i]++;
	if (g_calls <= NEV) {
		uint8_t a = verif_in.act[g_calls];

		j = verif_in.who[g_calls];
		if (j >= 0 && j < NEV && !g_freed[j]) {
			if (a == 1) {
				iv_event_post(v_e[j]);
				g_owed[j] = 1;
			} else if (a == 2) {
				iv_event_unregister(v_e[j]);
				g_owed[j] = 0;
				free(v_e[j]);
				g_freed[j] = 1;
			}
		}
	}
	g_calls++;
}

void h_run_pending(void)
{
	int i, k;

	VERIF_IN_LOAD();
	verif_st = &v_state;
	method = &v_method;
	v_method.event_rx_off = v_rx_off;
	v_method.event_send = v_send;
	iv_event_use_event_raw = verif_in.use_raw;
	g_lock_obj = &v_state.event_list_mutex;
	INIT_IV_LIST_HEAD(&v_state.events_pending);
	v_state.event_count = NEV;
	v_state.numobjs = NEV + 5;
	for (i = 0; i < NEV; i++) {
		v_e[i] = malloc(sizeof(struct iv_event));
		__CPROVER_assume(v_e[i] != NULL);
		v_e[i]->cookie = (void *)(intptr_t)i;
		v_e[i]->handler = mgc_event;
		v_e[i]->owner = &v_state;
		INIT_IV_LIST_HEAD(&v_e[i]->list);
	}
	for (k = 0; k < NEV; k++) {
		i = (verif_in.order & 1) ? NEV - 1 - k : k;
		if (verif_in.pending[i]) {
			iv_list_add_tail(&v_e[i]->list, &v_state.events_pending);
			g_owed[i] = 1;
		}
	}

	iv_event_run_pending_events();

	__CPROVER_assert(!g_lock_held, "[C08] the mutex is released on every path");
	for (i = 0; i < NEV; i++) {
		if (g_freed[i])
			continue;
		__CPROVER_assert(IMPLIES(verif_in.pending[i], g_runs[i] >= 1), "[C08,C11,C12,C13] every event that was pending when the run started, and was not unregistered, had its handler invoked");
		__CPROVER_assert(IFF(g_owed[i], on_pending(v_e[i])), "[C08,C11,C12,C13] a post made during the run is queued for the next run (and only such events are queued): nothing lost, nothing stale");
	}
	CANARY();
}
