/*
 * Proof units for src/iv_task.c  (C01, C06, C07, C18)
 * The real file is included verbatim; contracts are out of line.
 */
#include "iv_task.c"
#include "stubs/base.h"

/* ---------------------------------------------------------------------
 * Symbolic pre-state: one thread state, one task under test, the tails of
 * the pending list and of the running batch (local shape, DESIGN 2.2).
 * shape_x: 0 = list empty, 1 = exactly one element, 2 = two or more.
 * ------------------------------------------------------------------- */
struct verif_in_t {
	int		numobjs;
	uint32_t	epoch_st;
	uint32_t	epoch_t;
	uint8_t		shape_pending;
	uint8_t		shape_batch;
	_Bool		batch_present;
	uint8_t		t_where;	/* 0 = off list, 1 = pending tail, 2 = batch tail */
} verif_in;

static struct iv_state		v_state;
static struct iv_task_		v_task;
static struct iv_list_head	v_batch;		/* iv_run_tasks' local list */
static struct iv_list_head	v_ptail, v_pother;	/* pending: tail / some other */
static struct iv_list_head	v_btail, v_bother;

static void v_build_list(struct iv_list_head *head, struct iv_list_head *tail,
			 struct iv_list_head *other, int shape)
{
	if (shape == 0) {
		head->next = head;
		head->prev = head;
	} else if (shape == 1) {
		head->next = tail;
		head->prev = tail;
		tail->next = head;
		tail->prev = head;
	} else {
		head->next = other;
		head->prev = tail;
		tail->next = head;
		tail->prev = other;
		other->prev = head;
		other->next = tail;	/* stands for the rest of the list */
	}
}

static void v_build(void)
{
	VERIF_IN_LOAD();
	__CPROVER_assume(verif_in.shape_pending <= 2 && verif_in.shape_batch <= 2);
	__CPROVER_assume(verif_in.t_where <= 2);

	verif_st = &v_state;
	v_state.numobjs = verif_in.numobjs;
	v_state.task_epoch = verif_in.epoch_st;
	v_build_list(&v_state.tasks, &v_ptail, &v_pother, verif_in.shape_pending);
	if (verif_in.batch_present) {
		v_build_list(&v_batch, &v_btail, &v_bother, verif_in.shape_batch);
		v_state.tasks_current = &v_batch;
	} else {
		v_state.tasks_current = NULL;
	}
	v_task.epoch = verif_in.epoch_t;
	v_task.list.next = &v_task.list;
	v_task.list.prev = &v_task.list;
}

/* the list the task must join (C06): the running batch iff one is running
 * and the task has not yet run in this round */
#define JOINS_BATCH(st, t)						\
	((st)->tasks_current != NULL && (t)->epoch != (st)->task_epoch)
#define TARGET_LIST(st, t)						\
	(JOINS_BATCH(st, t) ? (st)->tasks_current : &(st)->tasks)
#define OLD_JOINS(_t)							\
	(__CPROVER_old(verif_st->tasks_current) != NULL &&		\
	 __CPROVER_old(TASK(_t)->epoch) != __CPROVER_old(verif_st->task_epoch))
#define TASK(_t)	((struct iv_task_ *)(_t))

void iv_task_register__contract(struct iv_task *_t)
__CPROVER_requires(verif_st->numobjs >= 0 && verif_st->numobjs < INT_MAX)
__CPROVER_requires(TASK(_t)->list.next == &TASK(_t)->list)
__CPROVER_assigns(verif_st->numobjs, TASK(_t)->list)
__CPROVER_assigns(JOINS_BATCH(verif_st, TASK(_t)) :
		  verif_st->tasks_current->prev, verif_st->tasks_current->prev->next)
__CPROVER_assigns(!JOINS_BATCH(verif_st, TASK(_t)) :
		  verif_st->tasks.prev, verif_st->tasks.prev->next)
__CPROVER_ensures(verif_st->numobjs == __CPROVER_old(verif_st->numobjs) + 1)	/* [C07] accounting: +1 */
__CPROVER_ensures(OLD_JOINS(_t) ?
	(TASK(_t)->list.next == __CPROVER_old(verif_st->tasks_current) &&
	 __CPROVER_old(verif_st->tasks_current)->prev == &TASK(_t)->list &&
	 TASK(_t)->list.prev == __CPROVER_old(verif_st->tasks_current->prev) &&
	 __CPROVER_old(verif_st->tasks_current->prev)->next == &TASK(_t)->list) :
	(TASK(_t)->list.next == &verif_st->tasks &&
	 verif_st->tasks.prev == &TASK(_t)->list &&
	 TASK(_t)->list.prev == __CPROVER_old(verif_st->tasks.prev) &&
	 __CPROVER_old(verif_st->tasks.prev)->next == &TASK(_t)->list))	/* [C06] tail of the running batch iff one runs and the task has not run this round, else tail of pending */
__CPROVER_ensures(TASK(_t)->epoch == __CPROVER_old(TASK(_t)->epoch))
;

void h_iv_task_register(void)
{
	v_build();
	CALL(iv_task_register)((struct iv_task *)&v_task);
	CANARY();
}
