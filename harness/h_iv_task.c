/*
 * Proof units for src/iv_task.c  (C01, C06, C07, C18)
 * The real file is included verbatim; contracts are out of line.
 */
#include "iv_task.c"
#include "stubs/base.h"

/* ---------------------------------------------------------------------
 * Symbolic pre-state: one thread state, one task under test, the tails of
 * the pending list and of the running batch (local shape, DESIGN 2.2).
 * shape_x: 0 = list empty, 1 = exactly one element, 2 = two or more.
 * ------------------------------------------------------------------- */
struct verif_in_t {
	int		numobjs;
	uint32_t	epoch_st;
	uint32_t	epoch_t;
	uint8_t		shape_pending;
	uint8_t		shape_batch;
	_Bool		batch_present;
	uint8_t		t_where;	/* 0 = off list, 1 = pending tail, 2 = batch tail */
} verif_in;

static struct iv_state		v_state;
static struct iv_task_		v_task;
static struct iv_list_head	v_batch;		/* iv_run_tasks' local list */
static struct iv_list_head	v_ptail, v_pother;	/* pending: tail / some other */
static struct iv_list_head	v_btail, v_bother;

static void v_build_list(struct iv_list_head *head, struct iv_list_head *tail,
			 struct iv_list_head *other, int shape)
{
	if (shape == 0) {
		head->next = head;
		head->prev = head;
	} else if (shape == 1) {
		head->next = tail;
		head->prev = tail;
		tail->next = head;
		tail->prev = head;
	} else {
		head->next = other;
		head->prev = tail;
		tail->next = head;
		tail->prev = other;
		other->prev = head;
		other->next = tail;	/* stands for the rest of the list */
	}
}

static void v_build(void)
{
	VERIF_IN_LOAD();
	__CPROVER_assume(verif_in.shape_pending <= 2 && verif_in.shape_batch <= 2);
	__CPROVER_assume(verif_in.t_where <= 2);

	verif_st = &v_state;
	v_state.numobjs = verif_in.numobjs;
	v_state.task_epoch = verif_in.epoch_st;
	v_build_list(&v_state.tasks, &v_ptail, &v_pother, verif_in.shape_pending);
	if (verif_in.batch_present) {
		v_build_list(&v_batch, &v_btail, &v_bother, verif_in.shape_batch);
		v_state.tasks_current = &v_batch;
	} else {
		v_state.tasks_current = NULL;
	}
	v_task.epoch = verif_in.epoch_t;
	v_task.list.next = &v_task.list;
	v_task.list.prev = &v_task.list;
}

/* the task under test sits on a list, between two neighbours that are either
 * both the list head (only element), head and another node, or two nodes */
static void v_build_on_list(void)
{
	struct iv_list_head *head, *p, *n;

	v_build();
	__CPROVER_assume(verif_in.t_where == 1 || (verif_in.t_where == 2 && verif_in.batch_present));
	__CPROVER_assume(verif_in.numobjs >= 1);
	head = (verif_in.t_where == 1) ? &v_state.tasks : &v_batch;
	if (verif_in.shape_pending == 0) {		/* only element */
		p = head; n = head;
	} else if (verif_in.shape_pending == 1) {	/* first of several */
		p = head; n = &v_pother;
		v_pother.next = head; head->prev = &v_pother;
	} else {					/* between two nodes */
		p = &v_ptail; n = &v_pother;
		head->next = &v_ptail; v_ptail.prev = head;
		v_pother.next = head; head->prev = &v_pother;
	}
	p->next = &v_task.list;
	n->prev = &v_task.list;
	v_task.list.prev = p;
	v_task.list.next = n;
}

/* the list the task must join (C06): the running batch iff one is running
 * and the task has not yet run in this round */
#define JOINS_BATCH(st, t)						\
	((st)->tasks_current != NULL && (t)->epoch != (st)->task_epoch)
#define TARGET_LIST(st, t)						\
	(JOINS_BATCH(st, t) ? (st)->tasks_current : &(st)->tasks)
#define OLD_JOINS(_t)							\
	(__CPROVER_old(verif_st->tasks_current) != NULL &&		\
	 __CPROVER_old(TASK(_t)->epoch) != __CPROVER_old(verif_st->task_epoch))
#define TASK(_t)	((struct iv_task_ *)(_t))

void iv_task_register__contract(struct iv_task *_t)
__CPROVER_requires(verif_st->numobjs >= 0 && verif_st->numobjs < INT_MAX)
__CPROVER_requires(TASK(_t)->list.next == &TASK(_t)->list)
__CPROVER_assigns(verif_st->numobjs, TASK(_t)->list)
__CPROVER_assigns(JOINS_BATCH(verif_st, TASK(_t)) :
		  verif_st->tasks_current->prev, verif_st->tasks_current->prev->next)
__CPROVER_assigns(!JOINS_BATCH(verif_st, TASK(_t)) :
		  verif_st->tasks.prev, verif_st->tasks.prev->next)
__CPROVER_ensures(verif_st->numobjs == __CPROVER_old(verif_st->numobjs) + 1)	/* [C07] accounting: +1 */
__CPROVER_ensures(OLD_JOINS(_t) ?
	(TASK(_t)->list.next == __CPROVER_old(verif_st->tasks_current) &&
	 __CPROVER_old(verif_st->tasks_current)->prev == &TASK(_t)->list &&
	 TASK(_t)->list.prev == __CPROVER_old(verif_st->tasks_current->prev) &&
	 __CPROVER_old(verif_st->tasks_current->prev)->next == &TASK(_t)->list) :
	(TASK(_t)->list.next == &verif_st->tasks &&
	 verif_st->tasks.prev == &TASK(_t)->list &&
	 TASK(_t)->list.prev == __CPROVER_old(verif_st->tasks.prev) &&
	 __CPROVER_old(verif_st->tasks.prev)->next == &TASK(_t)->list))	/* [C06] tail of the running batch iff one runs and the task has not run this round, else tail of pending */
__CPROVER_ensures(TASK(_t)->epoch == __CPROVER_old(TASK(_t)->epoch))
;

void h_iv_task_register(void)
{
	v_build();
	CALL(iv_task_register)((struct iv_task *)&v_task);
	CANARY();
}

/* ------------------------------------------------------------------ */
void iv_task_unregister__contract(struct iv_task *_t)
__CPROVER_requires(verif_st->numobjs >= 1)
__CPROVER_requires(TASK(_t)->list.next != &TASK(_t)->list && WF_NODE(&TASK(_t)->list))
__CPROVER_assigns(verif_st->numobjs, TASK(_t)->list,
		  TASK(_t)->list.prev->next, TASK(_t)->list.next->prev)
__CPROVER_ensures(verif_st->numobjs == __CPROVER_old(verif_st->numobjs) - 1)	/* [C07] accounting: -1 */
__CPROVER_ensures(__CPROVER_old(TASK(_t)->list.prev)->next == __CPROVER_old(TASK(_t)->list.next))	/* [C01] old neighbours are linked to each other: the task is on no library list */
__CPROVER_ensures(__CPROVER_old(TASK(_t)->list.next)->prev == __CPROVER_old(TASK(_t)->list.prev))	/* [C01] unlinked from whichever batch held it */
__CPROVER_ensures(TASK(_t)->list.next == &TASK(_t)->list && TASK(_t)->list.prev == &TASK(_t)->list)	/* [C01,C06] reads as unregistered afterwards */
;

void h_iv_task_unregister(void)
{
	v_build_on_list();
	CALL(iv_task_unregister)((struct iv_task *)&v_task);
	CANARY();
}

/* ------------------------------------------------------------------ */
void IV_TASK_INIT__contract(struct iv_task *_t)
__CPROVER_assigns(TASK(_t)->list, TASK(_t)->epoch)
__CPROVER_ensures(TASK(_t)->list.next == &TASK(_t)->list && TASK(_t)->list.prev == &TASK(_t)->list)	/* [C06] initialised task is unregistered */
__CPROVER_ensures(TASK(_t)->epoch == (verif_st != NULL ? verif_st->task_epoch : 0))	/* [C06] stamped with the current round, so a task initialised inside a round joins the next one only if it already ran */
;

void h_IV_TASK_INIT(void)
{
	v_build();
	if (verif_in.t_where == 2)
		verif_st = NULL;		/* thread without a loop state */
	CALL(IV_TASK_INIT)((struct iv_task *)&v_task);
	CANARY();
}

/* ------------------------------------------------------------------ */
int iv_task_registered__contract(const struct iv_task *_t)
__CPROVER_assigns()
__CPROVER_ensures(__CPROVER_return_value == (TASK(_t)->list.next != &TASK(_t)->list))
;

void h_iv_task_registered(void)
{
	int r;

	v_build();
	if (verif_in.t_where)
		v_build_on_list();
	r = CALL(iv_task_registered)((struct iv_task *)&v_task);
	CANARY();
}
