/*
 * Unit for src/iv_time_posix.c (C15, C04): clock source fallback chain.  Mode S.
 */
#include "iv_time_posix.c"
#include "stubs/base.h"

struct verif_in_t {
	int	src;			/* clock_source before the call */
	_Bool	mono_ok, real_ok;
	long	sec, nsec, usec;
} verif_in;

static int g_mono, g_real, g_tod;
int STUB(clock_gettime)(clockid_t id, struct timespec *t)
{
	if (id == CLOCK_MONOTONIC) { g_mono++; if (!verif_in.mono_ok) return -1; }
	else if (id == CLOCK_REALTIME) { g_real++; if (!verif_in.real_ok) return -1; }
	else return -1;
	t->tv_sec = verif_in.sec; t->tv_nsec = verif_in.nsec;
	return 0;
}
int STUB(gettimeofday)(struct timeval *tv, void *tz) { g_tod++; tv->tv_sec = verif_in.sec; tv->tv_usec = verif_in.usec; return 0; }

void h_time_get(void)
{
	struct timespec t;
	int old;

	VERIF_IN_LOAD();
	__CPROVER_assume(verif_in.src >= 0 && verif_in.src <= 3);
	__CPROVER_assume(verif_in.usec >= 0 && verif_in.usec < 1000000 && verif_in.nsec >= 0 && verif_in.nsec < 1000000000);
	clock_source = old = verif_in.src;
	iv_time_get(&t);
	__CPROVER_assert(clock_source >= old, "[C15] a clock source that failed is not tried again (one-way flag)");
	__CPROVER_assert(IMPLIES(old < 2 && verif_in.mono_ok, g_mono == 1 && g_real == 0 && g_tod == 0 && t.tv_sec == verif_in.sec && t.tv_nsec == verif_in.nsec), "[C04,C15] the monotonic clock is preferred");
	__CPROVER_assert(IMPLIES((old >= 2 || !verif_in.mono_ok) && old < 3 && verif_in.real_ok, g_real == 1 && g_tod == 0), "[C15,C04,C05] else the realtime clock (a refused clock source must not leave the reading unset: every timer decision hangs on it)");
	__CPROVER_assert(IMPLIES((old >= 2 || !verif_in.mono_ok) && (old >= 3 || !verif_in.real_ok), g_tod == 1 && t.tv_sec == verif_in.sec && t.tv_nsec == 1000L * verif_in.usec), "[C15] else gettimeofday, converted to nanoseconds");
	__CPROVER_assert(t.tv_nsec >= 0 && t.tv_nsec < 1000000000, "[C04] the reading is a normalised timespec");
	CANARY();
}
