/*
 * Proof units for src/iv_popen.c (C19, C18).  Mode S, all loop-free apart from
 * strcmp on the one-character type string.
 * open() is variadic and malloc/free are counted: routed by macros to
 * fixed-arity / counting wrappers (the only textual deviations).
 */
#include <stdlib.h>
#include <fcntl.h>
#include <unistd.h>
void *verif_malloc(size_t n);
void verif_free(void *p);
int verif_open(const char *path, int flags);
#define malloc(n)		verif_malloc(n)
#define free(p)			verif_free(p)
#define open(path, flags)	verif_open(path, flags)
#include "iv_popen.c"
#undef malloc
#undef free
#undef open
#include "iv_private.h"
#include "stubs/base.h"
#include "stubs/fd_model.h"

struct verif_in_t {
	int	num_kills;
	int	kill_ret;
	int	status;
	_Bool	has_parent, has_child;
	uint8_t	type;			/* 0 "r", 1 "w", 2 invalid */
	int	pipe_errno, spawn_ret, devnull_errno;
	_Bool	malloc_fail;
	long	now_sec, now_nsec;
} verif_in;

static struct iv_state		v_state;
static struct iv_popen_request	v_req;
static struct iv_popen_running_child *v_ch;
static struct timespec		v_now;

static int	g_allocs, g_frees, g_kill_calls, g_kill_sig, g_unreg, g_treg, g_tunreg, g_spawns, g_execs, g_validates;
static const struct iv_wait_interest *g_kill_arg, *g_unreg_arg;
static struct iv_timer *g_treg_arg, *g_tunreg_arg;
static void (*g_spawn_fn)(void *); static void *g_spawn_cookie; static int g_spawn_for_read;
static int	g_std[3];	/* what descriptors 0,1,2 of the child are duplicates of (kind) */
static void	*g_last_alloc;

void *verif_malloc(size_t n)
{
	void *p;
	if (verif_in.malloc_fail)
		return NULL;
	p = malloc(n);
	__CPROVER_assume(p != NULL);
	g_allocs++;
	g_last_alloc = p;
	return p;
}
void verif_free(void *p) { if (p != NULL) g_frees++; free(p); }

int iv_wait_interest_kill(const struct iv_wait_interest *this, int sig)
{
	g_kill_calls++; g_kill_arg = this; g_kill_sig = sig;
	return verif_in.kill_ret;
}
void iv_wait_interest_unregister(struct iv_wait_interest *this) { g_unreg++; g_unreg_arg = this; }
int iv_wait_interest_register_spawn(struct iv_wait_interest *this, void (*fn)(void *), void *cookie)
{
	g_spawns++; g_spawn_fn = fn; g_spawn_cookie = cookie;
	g_spawn_for_read = ((struct iv_popen_spawn_info *)cookie)->for_read;
	return verif_in.spawn_ret;
}
void iv_timer_register(struct iv_timer *t) { g_treg++; g_treg_arg = t; }
void iv_timer_unregister(struct iv_timer *t) { g_tunreg++; g_tunreg_arg = t; }
void IV_TIMER_INIT(struct iv_timer *t) { ((struct iv_timer_ *)t)->index = -1; }
const struct timespec *__iv_now_location_valid(void) { g_validates++; return &v_now; }
void STUB(perror)(const char *s) { }

int STUB(pipe)(int fd[2])
{
	if (verif_in.pipe_errno) { verif_errno = verif_in.pipe_errno; return -1; }
	fd[0] = k_alloc(KFD_PIPE_R, 0, 0);
	fd[1] = k_alloc(KFD_PIPE_W, 0, 0);
	return 0;
}
int verif_open(const char *path, int flags)
{
	__CPROVER_assert(flags == O_RDWR && path[0] == '/' && path[1] == 'd' && path[5] == 'n' && path[9] == '\0', "[C19] the null device is opened read-write");
	if (verif_in.devnull_errno) { verif_errno = verif_in.devnull_errno; return -1; }
	return k_alloc(KFD_OTHER, 0, 0);
}
int STUB(dup2)(int oldfd, int newfd)
{
	__CPROVER_assert(oldfd >= 3 && oldfd < KFD_MAX && k_fd[oldfd].open && newfd >= 0 && newfd <= 2, "[C19] a standard stream is replaced by an open descriptor");
	g_std[newfd] = k_fd[oldfd].kind;
	return newfd;
}
int STUB(execvp)(const char *file, char *const argv[])
{
	__CPROVER_assert(file == v_req.file && argv == v_req.argv, "[C19] the requested program is executed with the requested arguments");
	__CPROVER_assert(k_open_count() == 0, "[C19,C18] the pipe ends and the null-device descriptor are closed before exec: only the wired standard streams remain");
	g_execs++;
	return -1;
}

static char *v_argv[2];
static void v_build(void)
{
	VERIF_IN_LOAD();
	verif_st = &v_state;
	__CPROVER_assume(verif_in.now_nsec >= 0 && verif_in.now_nsec < 1000000000 && verif_in.now_sec >= 0 && verif_in.now_sec < (1L << 40));
	v_now.tv_sec = verif_in.now_sec; v_now.tv_nsec = verif_in.now_nsec;
	v_req.file = "prog"; v_req.argv = v_argv;
	v_req.type = verif_in.type == 0 ? "r" : verif_in.type == 1 ? "w" : "rw";
	v_ch = NULL;
	g_std[0] = g_std[1] = g_std[2] = KFD_NONE;
}

static void v_build_child(void)
{
	v_build();
	v_ch = malloc(sizeof(*v_ch));
	__CPROVER_assume(v_ch != NULL);
	v_ch->parent = verif_in.has_parent ? &v_req : NULL;
	v_ch->num_kills = verif_in.num_kills;
	v_req.child = verif_in.has_parent ? v_ch : NULL;
}

/* ---- periodic signalling after close ---------------------------------- */
void h_child_timer(void)
{
	v_build_child();
	__CPROVER_assume(verif_in.num_kills >= 0 && verif_in.num_kills < INT_MAX);
	v_ch->parent = NULL;
	iv_popen_running_child_timer(v_ch);
	__CPROVER_assert(g_kill_calls == 1 && g_kill_arg == &v_ch->wait, "[C19] the child is signalled only through the kill helper, which refuses a pid whose death was reaped");
	__CPROVER_assert(g_kill_sig == (verif_in.num_kills < 5 ? SIGTERM : SIGKILL), "[C19] five termination requests first, then an unconditional kill");
	if (verif_in.kill_ret < 0) {
		__CPROVER_assert(g_unreg == 1 && g_unreg_arg == &v_ch->wait && g_frees == 1 && g_treg == 0, "[C19,C05,C18] when the process is gone: the interest is released, the record freed, and no timer of that record is (or stays) registered: a freed timer in the heap would corrupt the firing of every other timer");
	} else {
		__CPROVER_assert(g_unreg == 0 && g_frees == 0, "[C19] otherwise the record stays");
		__CPROVER_assert(g_treg == 1 && g_treg_arg == &v_ch->signal_timer, "[C19] and the signalling timer is re-armed");
		__CPROVER_assert(v_ch->signal_timer.expires.tv_sec == v_now.tv_sec + 5 && v_ch->signal_timer.expires.tv_nsec == v_now.tv_nsec, "[C19] five seconds from now");
		__CPROVER_assert(v_ch->num_kills == verif_in.num_kills + 1, "[C19] attempts are counted");
	}
	CANARY();
}

void h_request_close(void)
{
	v_build_child();
	__CPROVER_assume(verif_in.has_parent == verif_in.has_child);
	if (!verif_in.has_child)
		v_req.child = NULL;
	iv_popen_request_close(&v_req);
	if (!verif_in.has_child) {
		__CPROVER_assert(g_treg == 0 && g_kill_calls == 0, "[C19] closing a request whose child has already ended does nothing (no signal)");
	} else {
		__CPROVER_assert(v_ch->parent == NULL, "[C19,C18] the child record is detached from the request -- the link is cut on the record's side, so nothing written later when the child ends goes into the (closed, possibly freed) request");
		__CPROVER_assert(g_treg == 1 && g_treg_arg == &v_ch->signal_timer && v_ch->num_kills == 0, "[C19] the signalling timer is started, counting from zero");
		__CPROVER_assert(v_ch->signal_timer.handler == iv_popen_running_child_timer && v_ch->signal_timer.cookie == v_ch, "[C19] wired to the signalling step of this child");
		__CPROVER_assert(v_ch->signal_timer.expires.tv_sec == v_now.tv_sec && v_ch->signal_timer.expires.tv_nsec == v_now.tv_nsec, "[C19] first signal at once");
		__CPROVER_assert(g_kill_calls == 0, "[C19] no signal is sent from the close call itself");
	}
	CANARY();
}

void h_child_wait(void)
{
	int terminal;

	v_build_child();
	terminal = WIFEXITED(verif_in.status) || WIFSIGNALED(verif_in.status);
	iv_popen_running_child_wait(v_ch, verif_in.status, NULL);
	if (!terminal) {
		__CPROVER_assert(g_unreg == 0 && g_frees == 0 && g_tunreg == 0 && IMPLIES(verif_in.has_parent, v_req.child == v_ch), "[C19] stop / continue reports change nothing: the child is still being looked after");
	} else {
		__CPROVER_assert(g_unreg == 1 && g_frees == 1, "[C19] on termination the wait interest is released and the record freed, once");
		__CPROVER_assert(IMPLIES(verif_in.has_parent, v_req.child == NULL && g_tunreg == 0), "[C19] an open request forgets its child (a later close sends no signal)");
		__CPROVER_assert(IMPLIES(!verif_in.has_parent, g_tunreg == 1), "[C19] a closed request's signalling timer is cancelled: no further signal to that pid, loop objects released");
	}
	CANARY();
}

/* ---- child side -------------------------------------------------------- */
void h_popen_child(void)
{
	struct iv_popen_spawn_info info;

	v_build();
	__CPROVER_assume(verif_in.devnull_errno == 0 && verif_in.type <= 1);
	info.this = &v_req;
	info.for_read = (verif_in.type == 0);
	info.data_pipe[0] = k_alloc(KFD_PIPE_R, 0, 0);
	info.data_pipe[1] = k_alloc(KFD_PIPE_W, 0, 0);
	iv_popen_child(&info);
	__CPROVER_assert(g_execs == 1, "[C19] the program is executed");
	if (info.for_read)
		__CPROVER_assert(g_std[1] == KFD_PIPE_W && g_std[0] == KFD_OTHER && g_std[2] == KFD_OTHER, "[C19] type r: standard output is the pipe, input and error are the null device");
	else
		__CPROVER_assert(g_std[0] == KFD_PIPE_R && g_std[1] == KFD_OTHER && g_std[2] == KFD_OTHER, "[C19] type w: standard input is the pipe, output and error are the null device");
	__CPROVER_assert(k_bad_close == 0, "[C18] no descriptor is closed twice");
	CANARY();
}

/* ---- submit ------------------------------------------------------------ */
void h_request_submit(void)
{
	int fd;

	v_build();
	__CPROVER_assume(verif_in.spawn_ret == 0 || verif_in.spawn_ret == -1);
	__CPROVER_assume(verif_in.type <= 2);
	fd = iv_popen_request_submit(&v_req);
	if (verif_in.malloc_fail || verif_in.type == 2 || verif_in.pipe_errno || verif_in.spawn_ret < 0) {
		__CPROVER_assert(fd == -1, "[C19] failure is reported");
		__CPROVER_assert(g_allocs == g_frees && k_open_count() == 0 && k_bad_close == 0, "[C18] every failure path frees the record and closes both pipe ends (once)");
	} else {
		struct iv_popen_running_child *ch = v_req.child;

		__CPROVER_assert(ch != NULL && ch == g_last_alloc && ch->parent == &v_req && g_allocs == 1 && g_frees == 0, "[C19] the request remembers its running child");
		__CPROVER_assert(g_spawns == 1 && g_spawn_fn == iv_popen_child && g_spawn_for_read == (verif_in.type == 0), "[C19] the child is spawned atomically with its wait interest, with the right direction");
		__CPROVER_assert(ch->wait.handler == iv_popen_running_child_wait && ch->wait.cookie == ch, "[C19] its exit is reported to the popen layer");
		__CPROVER_assert(fd >= 3 && k_fd[fd].open && k_fd[fd].kind == (verif_in.type == 0 ? KFD_PIPE_R : KFD_PIPE_W), "[C19] the returned descriptor is the parent's end: read end for r, write end for w");
		__CPROVER_assert(k_open_count() == 1 && k_bad_close == 0, "[C18] the other end is closed in the parent");
	}
	CANARY();
}
