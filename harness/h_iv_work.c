/*
 * Units for src/iv_work.c (C12, C13, C18): per-call obligations of the work
 * pool under the lock-ownership model (the pool mutex stub checks the pool
 * lock invariant at every unlock; where a function re-acquires the lock the
 * protected state may be re-chosen).  Thread interleavings as such are not
 * explored.  Mode S.  malloc/free are counted through macros.
 */
#include <stdlib.h>
void *verif_malloc(size_t n);
void verif_free(void *p);
#define malloc(n)	verif_malloc(n)
#define free(p)		verif_free(p)
#include "iv_work.c"
#undef malloc
#undef free
#include "stubs/base.h"

#ifndef NWI
#define NWI 2		/* work items in the bounded units */
#endif

struct verif_in_t {
	int	max_threads, started;
	_Bool	idle_present, owner, continuation, shutting, kicked, on_idle;
	uint8_t	items_shape;		/* pending work items before the call: 0, 1, 2 */
	int	create_ret;
	_Bool	malloc_fail, mutex_fail;
	uint32_t seq_head;
	uint8_t	nitems;
	_Bool	done_empty;
	uint8_t	act[NWI + 1];
	_Bool	relock_done_empty; int relock_started;
	long	now_sec, now_nsec;
} verif_in;

static struct iv_state		v_state;
static struct work_pool_priv	*v_pool;
static struct iv_work_pool	v_pub;
static struct work_pool_thread	*v_thr, *v_idle;
static struct iv_work_item	v_item[NWI + 1], v_new;
static struct iv_work_thr_info	v_tinfo;
static struct timespec		v_now;

static int g_allocs, g_frees, g_pool_freed;
static int g_post_ev, g_post_needed, g_post_kick_thr, g_post_kick_idle, g_post_other;
static int g_ev_reg, g_ev_unreg, g_treg, g_tunreg, g_thread_create, g_stop_calls, g_start_calls, g_task_reg;
static struct iv_timer *g_treg_arg;
static int g_lock_held, g_lock_acq, g_inv_bad, g_work_while_locked, g_comp_while_locked;
static int g_work_runs[NWI + 1], g_comp_runs[NWI + 1], g_work_order, g_comp_order, g_calls;

void *verif_malloc(size_t n)
{
	void *p;
	if (verif_in.malloc_fail)
		return NULL;
	p = malloc(n);
	__CPROVER_assume(p != NULL);
	g_allocs++;
	return p;
}
void verif_free(void *p)
{
	if (p != NULL)
		g_frees++;
	if (p == (void *)v_pool)
		g_pool_freed++;
	free(p);
}

/* pool lock invariant K: queue counter agrees with the queue; thread count within bounds */
static void check_K(void)
{
	if (g_pool_freed || v_pool == NULL)
		return;
	if (IFF(v_pool->seq_head == v_pool->seq_tail, iv_list_empty(&v_pool->work_items)) == 0)
		g_inv_bad |= 1;
	if (v_pool->started_threads < 0)
		g_inv_bad |= 2;
}
static void on_relock(void);
/* lock-ownership model, first acquisition: what the lock protects cannot be known before the lock is
 * held -- a unit may put stale values there before the call and have the true ones appear here */
static int g_first_lock_mode;
static void on_first_lock(void);
int STUB(pthread_mutex_init)(pthread_mutex_t *m, const pthread_mutexattr_t *a) { return verif_in.mutex_fail ? 12 : 0; }
int STUB(pthread_mutex_destroy)(pthread_mutex_t *m) { return 0; }
int STUB(pthread_mutex_lock)(pthread_mutex_t *m)
{
	__CPROVER_assert(!g_lock_held, "[C12,C14] the pool lock is not taken twice");
	g_lock_held = 1;
	g_lock_acq++;
	if (g_lock_acq == 1)
		on_first_lock();
	if (g_lock_acq >= 2)
		on_relock();
	return 0;
}
int STUB(pthread_mutex_unlock)(pthread_mutex_t *m)
{
	__CPROVER_assert(g_lock_held, "[C12,C14] unlock of the held pool lock");
	check_K();
	g_lock_held = 0;
	return 0;
}

void iv_event_post(struct iv_event *e)
{
	if (v_pool != NULL && !g_pool_freed && e == &v_pool->ev) g_post_ev++;
	else if (v_pool != NULL && !g_pool_freed && e == &v_pool->thread_needed) g_post_needed++;
	else if (v_thr != NULL && e == &v_thr->kick) g_post_kick_thr++;
	else if (v_idle != NULL && e == &v_idle->kick) g_post_kick_idle++;
	else g_post_other++;
}
int iv_event_register(struct iv_event *e) { g_ev_reg++; return 0; }
void iv_event_unregister(struct iv_event *e) { g_ev_unreg++; }
void iv_timer_register(struct iv_timer *t) { g_treg++; g_treg_arg = t; }
void iv_timer_unregister(struct iv_timer *t) { g_tunreg++; }
void IV_TIMER_INIT(struct iv_timer *t) { }
void IV_TASK_INIT(struct iv_task *t) { }
void iv_task_register(struct iv_task *t) { g_task_reg++; }
const struct timespec *__iv_now_location_valid(void) { return &v_now; }

void iv_invalidate_now(void) { }
void iv_init(void) { } void iv_main(void) { } void iv_deinit(void) { }
unsigned long iv_get_thread_id(void) { return verif_in.owner ? 1000 : 2000; }
int iv_thread_create(const char *name, void (*fn)(void *), void *arg)
{
	__CPROVER_assert(fn == iv_work_thread, "[C12] pool threads run the worker routine");
	g_thread_create++;
	return verif_in.create_ret;
}
int STUB(snprintf)(char *s, size_t n, const char *fmt, ...) { return 0; }
void *STUB(iv_tls_user_ptr)(const struct iv_tls_user *itu) { return &v_tinfo; }
void STUB(iv_tls_user_register)(struct iv_tls_user *itu) { }

static void v_stop(void *c) { __CPROVER_assert(c == (void *)&v_pub, "hook cookie"); g_stop_calls++; }
static void v_start(void *c) { __CPROVER_assert(c == (void *)&v_pub, "hook cookie"); g_start_calls++; }

static int g_local_mode, g_local_cont;
static int g_relock_mode, g_relocks, g_collected, g_exp_posts, g_in_work;
static void v_work(void *c)
{
	int i = (struct iv_work_item *)c - v_item;

	g_in_work = 1;

	if (g_lock_held) g_work_while_locked++;
	__CPROVER_assert(i >= 0 && i <= NWI && g_work_runs[i] == 0, "[C12] a work function is executed at most once per submission");
	__CPROVER_assert(i == g_work_order, "[C12] items are taken in submission order");
	g_work_order++;
	g_work_runs[i]++;
	/* a work function may submit a continuation (from the worker thread) */
	if (g_calls <= NWI && verif_in.act[g_calls] == 1 && v_pub.priv != NULL) {
		_Bool o = verif_in.owner;
		verif_in.owner = 0;
		iv_work_pool_submit_continuation(&v_pub, &v_new);
		verif_in.owner = o;
	}
	/* with a NULL pool: a work function may submit a further local item */
	if (g_calls <= NWI && verif_in.act[g_calls] == 1 && v_pub.priv == NULL && g_local_mode && !g_local_cont) {
		g_local_cont = 1;
		iv_work_pool_submit_continuation(NULL, &v_new);
	}
	g_calls++;
	g_in_work = 0;
}
static void v_completion(void *c)
{
	int i = (struct iv_work_item *)c - v_item;

	if (g_lock_held) g_comp_while_locked++;
	__CPROVER_assert(i >= 0 && i <= NWI && g_comp_runs[i] == 0, "[C12] a completion is executed at most once per submission");
	__CPROVER_assert(i == g_comp_order, "[C12] completions are delivered in the order the work finished");
	g_comp_order++;
	g_comp_runs[i]++;
}

static void v_build(void)
{
	int i;

	VERIF_IN_LOAD();
	verif_st = &v_state;
	__CPROVER_assume(verif_in.now_nsec >= 0 && verif_in.now_nsec < 1000000000 && verif_in.now_sec >= 0 && verif_in.now_sec < (1L << 40));
	v_now.tv_sec = verif_in.now_sec; v_now.tv_nsec = verif_in.now_nsec;
	__CPROVER_assume(verif_in.max_threads >= 1 && verif_in.max_threads <= 1000);
	__CPROVER_assume(!verif_in.malloc_fail);	/* out-of-memory is covered by work_pool_create / not modelled elsewhere */
	__CPROVER_assume(verif_in.started >= 0 && verif_in.started <= verif_in.max_threads);
	v_pool = malloc(sizeof(*v_pool));
	__CPROVER_assume(v_pool != NULL);
	v_pub.priv = v_pool; v_pub.max_threads = verif_in.max_threads; v_pub.cookie = &v_pub;
	v_pool->max_threads = verif_in.max_threads;
	v_pool->started_threads = verif_in.started;
	v_pool->shutting_down = verif_in.shutting;
	v_pool->cookie = &v_pub;
	v_pool->thread_start = v_start; v_pool->thread_stop = v_stop;
	v_pool->tid = 1000;
	INIT_IV_LIST_HEAD(&v_pool->idle_threads);
	INIT_IV_LIST_HEAD(&v_pool->work_items);
	INIT_IV_LIST_HEAD(&v_pool->work_done);
	v_pool->seq_head = verif_in.seq_head;
	__CPROVER_assume(verif_in.nitems <= NWI);
	for (i = 0; i < NWI + 1; i++) {
		v_item[i].cookie = &v_item[i]; v_item[i].work = v_work; v_item[i].completion = v_completion;
		if (i < verif_in.nitems)
			iv_list_add_tail(&v_item[i].list, &v_pool->work_items);
	}
	v_pool->seq_tail = verif_in.seq_head + verif_in.nitems;
	v_new.cookie = &v_item[NWI]; v_new.work = v_work; v_new.completion = v_completion;
	v_thr = NULL; v_idle = NULL;
}

static struct work_pool_thread *mk_thread(void)
{
	struct work_pool_thread *t = malloc(sizeof(*t));
	__CPROVER_assume(t != NULL);
	t->pool = v_pool;
	t->kicked = 0;
	INIT_IV_LIST_HEAD(&t->list);
	return t;
}

static void on_relock_event(void);
static void on_relock(void) { on_relock_event(); }

/* ---- submit ---------------------------------------------------------- */
void h_submit(void)
{
	uint32_t tail0;
	int started0;

	v_build();
	__CPROVER_assume(verif_in.owner || verif_in.continuation);	/* anything else is API misuse (fatal) */
	__CPROVER_assume(!verif_in.shutting);
	if (verif_in.idle_present) {
		__CPROVER_assume(verif_in.started >= 1);
		v_idle = mk_thread();
		iv_list_add(&v_idle->list, &v_pool->idle_threads);
	}
	tail0 = v_pool->seq_tail; started0 = v_pool->started_threads;
	g_allocs = 0;
	if (verif_in.continuation)
		iv_work_pool_submit_continuation(&v_pub, &v_new);
	else
		iv_work_pool_submit_work(&v_pub, &v_new);

	__CPROVER_assert(v_pool->work_items.prev == &v_new.list && v_pool->seq_tail == tail0 + 1, "[C12] the item is appended to the pool's queue and counted");
	__CPROVER_assert(!g_lock_held && g_lock_acq == 1 && g_inv_bad == 0, "[C12,C14] under the pool lock, which is released with the queue invariant intact");
	if (verif_in.idle_present) {
		__CPROVER_assert(v_idle->kicked == 1 && g_post_kick_idle == 1 && g_thread_create == 0 && g_post_needed == 0, "[C12] an idle worker is marked kicked and woken (so its idle timeout cannot retire it with work queued)");
	} else if (started0 < verif_in.max_threads) {
		if (verif_in.owner) {
			__CPROVER_assert(g_thread_create == 1 && g_post_needed == 0, "[C12] no idle worker and below the maximum: the owner starts a worker");
			__CPROVER_assert(v_pool->started_threads == started0 + (verif_in.create_ret >= 0 ? 1 : 0), "[C12,C13] counted by the owner iff it was created, before the owner returns (a pool put right after already sees the thread): never more than max_threads workers");
			__CPROVER_assert(IMPLIES(verif_in.create_ret < 0, g_allocs == g_frees), "[C18] a failed start leaks nothing");
		} else {
			__CPROVER_assert(g_post_needed == 1 && g_thread_create == 0 && v_pool->started_threads == started0, "[C12] a continuation submitted from a worker asks the owner to start the thread");
		}
	} else {
		__CPROVER_assert(g_thread_create == 0 && g_post_needed == 0 && g_post_kick_idle == 0 && v_pool->started_threads == started0, "[C12] at the maximum with all workers busy nothing is started: a busy worker picks the item up when it runs out of work");
	}
	CANARY();
}

/* ---- worker: drain the queue ------------------------------------------- */
void h_thread_got_event(void)
{
	int i, n0, taken;

	v_build();
	v_thr = mk_thread();
	v_thr->kicked = verif_in.kicked;
	__CPROVER_assume(verif_in.started >= 1);
	if (verif_in.on_idle)
		iv_list_add(&v_thr->list, &v_pool->idle_threads);
	if (!verif_in.done_empty)
		iv_list_add_tail(&v_item[NWI].list, &v_pool->work_done);	/* an earlier, undelivered completion */
	n0 = verif_in.nitems;
	g_allocs = g_frees = 0;
	g_relock_mode = 2; g_relocks = 0; g_collected = 0; g_exp_posts = 0;

	iv_work_thread_got_event(v_thr);
	g_relock_mode = 0;

	taken = g_work_order;
	__CPROVER_assert(taken == n0, "[C12] the worker runs every item that was queued when it started");
	__CPROVER_assert(g_work_while_locked == 0, "[C12] work functions run without the pool lock");
	__CPROVER_assert(!g_lock_held && g_inv_bad == 0, "[C12,C14] the lock is released, with the queue invariant intact at every release");
	for (i = 0; i < NWI; i++)
		if (i < n0)
			__CPROVER_assert(g_work_runs[i] == 1 && g_comp_runs[i] == 0, "[C12] each taken item ran exactly once in the worker; its completion is left to the owner");
	__CPROVER_assert(g_relocks == n0, "[C12] the lock is re-taken once after every work function");
	__CPROVER_assert(g_post_ev == g_exp_posts + ((g_frees == 1 && v_pool->started_threads == 0) ? 1 : 0),
			 "[C12,C13] the owner is woken exactly when the done list goes from empty to non-empty, judged when the finished item is queued -- the owner may have collected the list while the work function ran -- (plus once by the last worker retiring during shutdown)");
	__CPROVER_assert(IMPLIES(!g_collected, g_exp_posts == ((n0 > 0 && verif_in.done_empty) ? 1 : 0)), "[C12] without interference: one wake-up per batch iff the list was empty");
	if (n0 > 0 && !g_collected) {
		struct iv_list_head *p = verif_in.done_empty ? v_pool->work_done.next : v_pool->work_done.next->next;
		__CPROVER_assert(p == &v_item[0].list, "[C12] finished items are queued for completion in order");
	}
	if (g_frees == 0) {
		__CPROVER_assert(v_thr->kicked == 0 || g_calls > 0, "[C12,C13] the kick is consumed, also when another worker took the item first: an idle worker is never left marked as kicked, so the idle timer and the shutdown can retire it");
		if (v_pool->seq_head == v_pool->seq_tail) {
			__CPROVER_assert(!verif_in.shutting, "[C13] a worker that runs out of work during shutdown retires");
			__CPROVER_assert(v_pool->idle_threads.next == &v_thr->list && g_treg == 1 && g_treg_arg == &v_thr->idle_timer, "[C12] out of work: the worker goes idle with its idle timer armed");
			__CPROVER_assert(v_thr->idle_timer.expires.tv_sec == v_now.tv_sec + 10 && v_thr->idle_timer.expires.tv_nsec == v_now.tv_nsec, "[C12] ten seconds from now");
			__CPROVER_assert(g_post_kick_thr == 0, "[C12] no self-kick when nothing is queued");
		} else {
			__CPROVER_assert(g_post_kick_thr == 1 && iv_list_empty(&v_thr->list) && g_treg == 0, "[C12] leaving with items still queued (submitted while every worker was busy): the worker re-posts its own kick, so the items are not stranded");
		}
	} else {
		__CPROVER_assert(verif_in.shutting && v_pool->seq_head == v_pool->seq_tail, "[C13,C12] the worker retires only during shutdown with an EMPTY queue: items submitted before the pool was put still run and complete");
		__CPROVER_assert(g_frees == 1 && g_ev_unreg == 1 && g_stop_calls == 1 && v_pool->started_threads == verif_in.started - 1, "[C13] retiring: kick event released, record freed, thread count dropped, thread-stop hook called once");
	}
	__CPROVER_assert(IMPLIES(verif_in.on_idle, g_tunreg == 1), "[C12] a worker that was idle cancels its idle timer when it is woken");
	CANARY();
}

/* ---- idle timeout -------------------------------------------------------- */
void h_idle_timeout(void)
{
	v_build();
	__CPROVER_assume(verif_in.started >= 1);
	v_thr = mk_thread();
	v_thr->kicked = verif_in.kicked;
	iv_list_add(&v_thr->list, &v_pool->idle_threads);
	g_allocs = g_frees = 0;
	/* before the lock is held the kick flag is not knowable */
	g_first_lock_mode = 2;
	v_thr->kicked = verif_in.done_empty;
	iv_work_thread_idle_timeout(v_thr);
	g_first_lock_mode = 0;
	if (verif_in.kicked) {
		__CPROVER_assert(g_frees == 0 && g_treg == 1 && v_pool->idle_threads.next == &v_thr->list, "[C12,C13] a worker that was kicked just before its idle timeout re-arms instead of dying and stays on the idle list: the kick is not lost, and 'idle timer armed iff on the idle list' still holds, which is what lets the kick handler cancel the timer before the worker can be retired");
		__CPROVER_assert(v_thr->idle_timer.expires.tv_sec == v_now.tv_sec + 10, "[C12] ten seconds from now");
	} else {
		__CPROVER_assert(g_frees == 1 && iv_list_empty(&v_pool->idle_threads) && g_ev_unreg == 1 && g_stop_calls == 1 && v_pool->started_threads == verif_in.started - 1, "[C12,C13] an idle, un-kicked worker leaves the idle list and retires (hook, count, record)");
		__CPROVER_assert(g_post_ev == ((verif_in.shutting && verif_in.started == 1) ? 1 : 0), "[C13] the last one out during shutdown wakes the owner");
	}
	__CPROVER_assert(!g_lock_held && g_lock_acq == 1, "[C12,C14] under the pool lock");
	CANARY();
}

/* ---- owner: completions and pool release ----------------------------------- */
static void on_first_lock(void)
{
	if (g_first_lock_mode == 1 && v_pool != NULL)
		v_pool->started_threads = verif_in.started;	/* pool put: the last worker may have retired until now */
	if (g_first_lock_mode == 2 && v_thr != NULL)
		v_thr->kicked = verif_in.kicked;		/* idle timeout: a submission may have kicked the worker until now */
}

static void on_relock_event(void)
{
	/* between the two critical sections of iv_work_event other threads may queue a completion or retire */
	if (g_relock_mode == 2 && g_in_work)
		return;		/* the lock taken by a submission made from inside a work function */
	if (g_relock_mode == 2 && !g_pool_freed) {
		/* worker re-taking the lock after a work function: meanwhile the owner may have collected
		 * the whole done list (it steals it under the lock); whether the owner must be woken is
		 * decided by what the list looks like NOW */
		if (g_relocks < NWI + 1 && verif_in.act[g_relocks] >= 128) {
			INIT_IV_LIST_HEAD(&v_pool->work_done);
			g_collected = 1;
		}
		g_relocks++;
		if (iv_list_empty(&v_pool->work_done))
			g_exp_posts++;
		return;
	}
	if (g_relock_mode && !g_pool_freed) {
		if (!verif_in.relock_done_empty && iv_list_empty(&v_pool->work_done))
			iv_list_add_tail(&v_item[NWI].list, &v_pool->work_done);
		v_pool->started_threads = verif_in.relock_started;
	}
}

void h_work_event(void)
{
	int i, n0;

	v_build();
	__CPROVER_assume(verif_in.relock_started >= 0 && verif_in.relock_started <= verif_in.max_threads);
	/* completions wait on the done list */
	n0 = verif_in.nitems;
	INIT_IV_LIST_HEAD(&v_pool->work_items);
	v_pool->seq_tail = v_pool->seq_head;
	for (i = 0; i < NWI; i++)
		if (i < n0)
			iv_list_add_tail(&v_item[i].list, &v_pool->work_done);
	for (i = 0; i < NWI + 1; i++)
		g_work_runs[i] = 1;
	g_relock_mode = 1;
	g_allocs = g_frees = 0;

	iv_work_event(v_pool);

	__CPROVER_assert(g_comp_order == n0 && g_comp_while_locked == 0, "[C12] every queued completion runs exactly once in the owner, in order, without the pool lock");
	__CPROVER_assert(!g_lock_held, "[C12,C14] lock released");
	if (verif_in.shutting)
		__CPROVER_assert(IFF(g_pool_freed == 1, verif_in.relock_started == 0 && verif_in.relock_done_empty), "[C13,C12] a released pool is freed exactly when no worker is left and no completion is undelivered (tested under the lock): no completion is lost");
	else
		__CPROVER_assert(g_pool_freed == 0, "[C13] a pool in use is never freed");
	__CPROVER_assert(IMPLIES(g_pool_freed, g_ev_unreg == 2 && g_frees == 1), "[C13] freeing drops both of the pool's references on the owner's loop");
	CANARY();
}

/* ---- release ------------------------------------------------------------------ */
void h_pool_put(void)
{
	v_build();
	if (verif_in.idle_present) {
		__CPROVER_assume(verif_in.started >= 1);
		v_idle = mk_thread();
		iv_list_add(&v_idle->list, &v_pool->idle_threads);
	}
	/* before the lock is held the thread count is not knowable */
	g_first_lock_mode = 1;
	__CPROVER_assume(verif_in.relock_started >= 0 && verif_in.relock_started <= verif_in.max_threads);
	v_pool->started_threads = verif_in.relock_started;
	iv_work_pool_put(&v_pub);
	g_first_lock_mode = 0;
	__CPROVER_assert(v_pub.priv == NULL && v_pool->shutting_down == 1, "[C13] the caller's structure is detached at once (it may be reused); the pool is marked shutting down");
	__CPROVER_assert(g_post_ev == (verif_in.started == 0 ? 1 : 0), "[C13] without workers -- judged under the pool lock: the last worker may retire right up to it -- the owner is woken to free the pool");
	__CPROVER_assert(g_post_kick_idle == ((verif_in.started > 0 && verif_in.idle_present) ? 1 : 0), "[C13] idle workers are woken so that they notice the shutdown; busy ones notice when they run out of work");
	__CPROVER_assert(!g_lock_held && g_pool_freed == 0, "[C13] the pool itself stays until the last worker and completion are gone");
	CANARY();
}

/* ---- create -------------------------------------------------------------------- */
void h_pool_create(void)
{
	int r;

	VERIF_IN_LOAD();
	verif_st = &v_state;
	v_pool = NULL;
	__CPROVER_assume(verif_in.max_threads >= 1);
	v_pub.max_threads = verif_in.max_threads; v_pub.cookie = &v_pub; v_pub.thread_start = v_start; v_pub.thread_stop = v_stop;
	r = iv_work_pool_create(&v_pub);
	if (verif_in.malloc_fail || verif_in.mutex_fail) {
		__CPROVER_assert(r == -1 && g_allocs == g_frees && g_ev_reg == 0, "[C18] a failed creation leaks nothing and registers nothing");
	} else {
		struct work_pool_priv *p = v_pub.priv;
		__CPROVER_assert(r == 0 && p != NULL && g_ev_reg == 2, "[C13] the pool holds two events on the owner's loop");
		__CPROVER_assert(p->started_threads == 0 && p->shutting_down == 0 && p->seq_head == p->seq_tail && iv_list_empty(&p->work_items) && iv_list_empty(&p->work_done) && iv_list_empty(&p->idle_threads) && p->max_threads == verif_in.max_threads, "[C12] empty pool satisfying the lock invariant");
		__CPROVER_assert(p->ev.handler == iv_work_event && p->thread_needed.handler == iv_work_thread_needed, "[C12] wired to the owner-side handlers");
	}
	CANARY();
}

/* ---- NULL pool: run from a task in the submitting thread ----------------------- */
void h_local(void)
{
	int i;

	v_build();
	INIT_IV_LIST_HEAD(&v_tinfo.work_items);
	for (i = 0; i < NWI; i++) {
		if (i < verif_in.nitems) {
			iv_list_del(&v_item[i].list);
			iv_work_pool_submit_work(NULL, &v_item[i]);
		}
	}
	__CPROVER_assert(g_task_reg == (verif_in.nitems > 0 ? 1 : 0), "[C12] with a NULL pool the first pending item registers the thread's task, later ones ride along");
	v_pub.priv = NULL;
	g_local_mode = 1; g_local_cont = 0;
	iv_work_handle_local(&v_tinfo);
	for (i = 0; i < NWI; i++)
		if (i < verif_in.nitems)
			__CPROVER_assert(g_work_runs[i] == 1 && g_comp_runs[i] == 1, "[C12] NULL pool: work function and completion each run exactly once, from the task, in the submitting thread");
	if (!g_local_cont) {
		__CPROVER_assert(iv_list_empty(&v_tinfo.work_items), "[C12] nothing is left queued");
	} else {
		__CPROVER_assert(v_tinfo.work_items.next == &v_new.list && v_new.list.next == &v_tinfo.work_items && g_work_runs[NWI] == 0,
				 "[C12] an item submitted by a work function of the running batch (the last one included) is queued for the next round, not run or dropped in this one");
		__CPROVER_assert(g_task_reg == 2, "[C12] and the thread's task is registered again for it: the item cannot be stranded");
	}
	CANARY();
}

/* ---- worker thread body, thread_needed ---------------------------------------- */
void h_work_thread(void)
{
	v_build();
	v_thr = mk_thread();
	iv_work_thread(v_thr);
	__CPROVER_assert(g_ev_reg == 1 && v_thr->kick.handler == iv_work_thread_got_event && v_thr->kick.cookie == v_thr, "[C12] a new worker registers its kick event with the queue-draining handler");
	__CPROVER_assert(v_thr->idle_timer.handler == iv_work_thread_idle_timeout && v_thr->idle_timer.cookie == v_thr && iv_list_empty(&v_thr->list) && !v_thr->kicked, "[C12] idle timer prepared, not idle, not kicked");
	__CPROVER_assert(g_start_calls == 1 && g_stop_calls == 0, "[C13] the thread-start hook runs exactly once, before any work");
	__CPROVER_assert(v_pool->started_threads == verif_in.started, "[C13,C12] a starting worker does not touch the thread count: its creator counted it, so the pool cannot be torn down under a thread that is still starting");
	__CPROVER_assert(g_post_kick_thr == 1, "[C12] the worker kicks itself once so that it looks at the queue as soon as its loop runs: an item submitted before the thread was up is not missed");
	CANARY();
}

void h_thread_needed(void)
{
	int started0;

	v_build();
	if (verif_in.idle_present) {
		__CPROVER_assume(verif_in.started >= 1);
		v_idle = mk_thread();
		iv_list_add(&v_idle->list, &v_pool->idle_threads);
	}
	started0 = v_pool->started_threads;
	g_allocs = g_frees = 0;
	iv_work_thread_needed(v_pool);
	__CPROVER_assert(IFF(g_thread_create == 1, !verif_in.idle_present && started0 < verif_in.max_threads), "[C12] the owner starts a thread on request only if none is idle and the maximum is not reached (re-checked under the lock)");
	__CPROVER_assert(v_pool->started_threads == started0 + ((g_thread_create == 1 && verif_in.create_ret >= 0) ? 1 : 0) && v_pool->started_threads <= verif_in.max_threads, "[C12,C13] counted by the owner iff created; never more than max_threads workers");
	__CPROVER_assert(IMPLIES(g_thread_create == 1 && verif_in.create_ret < 0, g_allocs == g_frees), "[C18] a failed start leaks nothing");
	__CPROVER_assert(!g_lock_held && g_lock_acq == 1, "[C12,C14] under the pool lock");
	CANARY();
}
