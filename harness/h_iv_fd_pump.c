/*
 * Proof units for src/iv_fd_pump.c (C17, C15, C18).  Mode S.
 *
 * The pump state machine is checked from ANY state that satisfies its
 * representation invariant, for one pump call, against ghost contracts of
 * read / write / splice / shutdown / ioctl (any legal result, EINTR from a
 * budget of two) and the ISO C contract of memmove (arguments checked, no
 * copy: a symbolic-length copy inside a 4096-byte buffer does not terminate
 * in CBMC).  Stream integrity is expressed positionally: data is read to the
 * end of the buffered bytes, written from the start of the buffer, and the
 * remainder is moved to the start -- so the buffer always holds the bytes
 * input[written .. read) in order.
 *
 * syscall() and ioctl() (variadic) are routed to fixed-arity stubs and memmove()
 * to verif_memmove() by macros (the only textual deviations).
 */
#include <unistd.h>
#include <string.h>
#include <sys/syscall.h>
long verif_syscall(long nr, long a, long b);
#define VERIF_SYS3(nr, a, b, ...)	verif_syscall(nr, (long)(a), (long)(b))
#define syscall(...)			VERIF_SYS3(__VA_ARGS__, 0, 0)
void *verif_memmove(void *d, const void *s, size_t n);
#define memmove(d, s, n)		verif_memmove(d, s, n)
#include <sys/ioctl.h>
int verif_ioctl(int fd, unsigned long req, int *arg);
#define ioctl(fd, req, arg)		verif_ioctl(fd, req, arg)
#include "iv_fd_pump.c"
#undef syscall
#undef memmove
#undef ioctl
#include "stubs/base.h"
#include "stubs/fd_model.h"

struct verif_in_t {
	int		bytes, full, saw_fin;
	_Bool		have_buf, relay_eof;
	int		rd_ret, rd_errno, wr_ret, wr_errno;
	uint8_t		rd_eintr, wr_eintr;
	int		fionread;
	int		num_bufs;
	int		splice;
	int		pipe2_errno, pipe_errno, probe_ret, probe_errno;
	_Bool		malloc_fail1, malloc_fail2;
} verif_in;

static struct iv_fd_pump		v_pump;
static struct iv_fd_pump_thr_info	v_tinfo;
static struct iv_fd_pump_buf		*v_buf;
#define CURBUF	((struct iv_fd_pump_buf *)v_pump.buf)
static struct iv_state			v_state;

/* ---- ghost environment -------------------------------------------------- */
static int	g_reads, g_writes, g_shutdowns, g_memmoves, g_setbands, g_sb_in, g_sb_out, g_ioctls;
static int	g_read_n, g_write_n;	/* bytes moved by the successful read / write of this call */
static int	g_rd_eintr, g_wr_eintr;
static int	g_bytes_at_read, g_bytes_at_write;

void *STUB(iv_tls_user_ptr)(const struct iv_tls_user *itu) { return &v_tinfo; }
void STUB(iv_tls_user_register)(struct iv_tls_user *itu) { }
void iv_fd_set_cloexec(int fd) { if (fd >= 0 && fd < KFD_MAX) k_fd[fd].cloexec = 1; }

static void v_set_bands(void *cookie, int pollin, int pollout)
{
	__CPROVER_assert(cookie == &v_pump, "[C17] band callback gets the pump's cookie");
	g_setbands++;
	g_sb_in = pollin;
	g_sb_out = pollout;
}

ssize_t STUB(read)(int fd, void *dst, size_t n)
{
	__CPROVER_assert(fd == v_pump.from_fd, "[C17] data is read from the input descriptor");
	__CPROVER_assert(CURBUF != NULL && (unsigned char *)dst == CURBUF->u.buf + v_pump.bytes, "[C17] new data is appended right after the buffered bytes (order preserved)");
	__CPROVER_assert(n == (size_t)(BUF_SIZE - v_pump.bytes) && n > 0, "[C17] at most the free space of the buffer is read, and only when there is some");
	__CPROVER_assert(__CPROVER_w_ok(dst, n), "[C17,C18] the whole window offered to read() lies inside the buffer block (the block holds its list header and all BUF_SIZE data bytes)");
	g_reads++;
	if (g_rd_eintr > 0) { g_rd_eintr--; verif_errno = EINTR; return -1; }
	g_bytes_at_read = v_pump.bytes;
	if (verif_in.rd_ret < 0) { verif_errno = verif_in.rd_errno; return -1; }
	__CPROVER_assume((size_t)verif_in.rd_ret <= n);
	g_read_n = verif_in.rd_ret;
	return verif_in.rd_ret;
}

ssize_t STUB(write)(int fd, const void *src, size_t n)
{
	__CPROVER_assert(fd == v_pump.to_fd, "[C17] data is written to the output descriptor");
	__CPROVER_assert(CURBUF != NULL && (const unsigned char *)src == CURBUF->u.buf, "[C17] output is taken from the start of the buffer (oldest byte first)");
	__CPROVER_assert(n == (size_t)v_pump.bytes && n > 0 && n <= BUF_SIZE, "[C17] exactly the buffered bytes are offered");
	__CPROVER_assert(__CPROVER_r_ok(src, n), "[C17,C18] the bytes offered to write() lie inside the buffer block");
	g_writes++;
	if (g_wr_eintr > 0) { g_wr_eintr--; verif_errno = EINTR; return -1; }
	g_bytes_at_write = v_pump.bytes;
	if (verif_in.wr_ret < 0) { verif_errno = verif_in.wr_errno; return -1; }
	__CPROVER_assume((size_t)verif_in.wr_ret <= n);
	g_write_n = verif_in.wr_ret;
	return verif_in.wr_ret;
}

ssize_t STUB(splice)(int fdin, loff_t *oin, int fdout, loff_t *oout, size_t len, unsigned int flags)
{
	if (fdin == v_pump.from_fd) {		/* input step: into the pipe's write end */
		__CPROVER_assert(CURBUF != NULL && fdout == CURBUF->u.pfd[1] && flags == SPLICE_F_NONBLOCK, "[C17] input is spliced into the buffer pipe, non-blocking");
		g_reads++;
		if (g_rd_eintr > 0) { g_rd_eintr--; verif_errno = EINTR; return -1; }
		g_bytes_at_read = v_pump.bytes;
		if (verif_in.rd_ret < 0) { verif_errno = verif_in.rd_errno; return -1; }
		__CPROVER_assume((size_t)verif_in.rd_ret <= len);
		g_read_n = verif_in.rd_ret;
		return verif_in.rd_ret;
	}
	if (fdout == v_pump.to_fd) {		/* output step: from the pipe's read end */
		__CPROVER_assert(CURBUF != NULL && fdin == CURBUF->u.pfd[0] && len == (size_t)v_pump.bytes && len > 0, "[C17] exactly the buffered bytes are spliced out of the buffer pipe");
		g_writes++;
		if (g_wr_eintr > 0) { g_wr_eintr--; verif_errno = EINTR; return -1; }
		g_bytes_at_write = v_pump.bytes;
		if (verif_in.wr_ret < 0) { verif_errno = verif_in.wr_errno; return -1; }
		__CPROVER_assume((size_t)verif_in.wr_ret <= len);
		g_write_n = verif_in.wr_ret;
		return verif_in.wr_ret;
	}
	/* the availability probe: between two fresh empty pipes */
	if (verif_in.probe_ret < 0) { verif_errno = verif_in.probe_errno; return -1; }
	return verif_in.probe_ret;
}

void *verif_memmove(void *d, const void *s, size_t n)
{
	__CPROVER_assert(CURBUF != NULL && (unsigned char *)d == CURBUF->u.buf, "[C17] the unwritten remainder is moved to the start of the buffer");
	__CPROVER_assert((const unsigned char *)s == CURBUF->u.buf + g_write_n && n == (size_t)(g_bytes_at_write - g_write_n), "[C17] exactly the bytes after the written prefix are kept, in order: nothing lost, nothing duplicated");
	__CPROVER_assert(n == (size_t)v_pump.bytes, "[C17] and the byte count agrees");
	__CPROVER_assert(n <= BUF_SIZE && __CPROVER_r_ok(s, n) && __CPROVER_w_ok(d, n), "[C18,C17] the move stays inside the buffer block (a failed write's -1 must never be used as a byte count)");
	g_memmoves++;
	return d;
}

int STUB(shutdown)(int fd, int how)
{
	__CPROVER_assert(fd == v_pump.to_fd && how == SHUT_WR, "[C17] end-of-file is relayed by shutting down the output for writing");
	__CPROVER_assert(v_pump.bytes == 0, "[C17] end-of-file is relayed only after all buffered data has been delivered");
	g_shutdowns++;
	return 0;
}

int verif_ioctl(int fd, unsigned long req, int *arg)
{
	g_ioctls++;
	*arg = verif_in.fionread;
	return 0;
}

long verif_syscall(long nr, long a, long b)
{
	int *fd = (int *)a;

	__CPROVER_assert(nr == __NR_pipe2 && b == O_CLOEXEC, "[C18,C15] pipe2 with O_CLOEXEC");
	if (verif_in.pipe2_errno) { verif_errno = verif_in.pipe2_errno; return -1; }
	fd[0] = k_alloc(KFD_PIPE_R, 1, 0);
	fd[1] = k_alloc(KFD_PIPE_W, 1, 0);
	return 0;
}

int STUB(pipe)(int fd[2])
{
	if (verif_in.pipe_errno) { verif_errno = verif_in.pipe_errno; return -1; }
	fd[0] = k_alloc(KFD_PIPE_R, 0, 0);
	fd[1] = k_alloc(KFD_PIPE_W, 0, 0);
	return 0;
}

/* representation invariant of a pump */
#define RI_RW(p)	((p)->bytes >= 0 && (p)->bytes <= BUF_SIZE &&				\
			 IFF((p)->full, (p)->bytes == BUF_SIZE) &&				\
			 (p)->saw_fin >= 0 && (p)->saw_fin <= 2 &&				\
			 IMPLIES((p)->saw_fin == 2, (p)->bytes == 0) &&				\
			 IMPLIES((p)->saw_fin == 1, (p)->bytes > 0) &&				\
			 IMPLIES((p)->buf == NULL, (p)->bytes == 0))
#define RI_SPLICE(p)	((p)->bytes >= 0 && (p)->bytes <= (1 << 30) &&				\
			 ((p)->full == 0 || (p)->full == 1) && IMPLIES((p)->full, (p)->bytes > 0) && \
			 (p)->saw_fin >= 0 && (p)->saw_fin <= 2 &&				\
			 IMPLIES((p)->saw_fin == 2, (p)->bytes == 0) &&				\
			 IMPLIES((p)->saw_fin == 1, (p)->bytes > 0) &&				\
			 IMPLIES((p)->buf == NULL, (p)->bytes == 0))

static void v_build(int splice_mode)
{
	VERIF_IN_LOAD();
	if (splice_mode < 0)
		splice_mode = (verif_in.splice != 0);
	verif_st = &v_state;
	splice_available = splice_mode;
	v_pump.from_fd = 50;
	v_pump.to_fd = 51;
	v_pump.cookie = &v_pump;
	v_pump.set_bands = v_set_bands;
	v_pump.flags = verif_in.relay_eof ? IV_FD_PUMP_FLAG_RELAY_EOF : 0;
	v_pump.bytes = verif_in.bytes;
	v_pump.full = verif_in.full;
	v_pump.saw_fin = verif_in.saw_fin;
	v_buf = NULL;
	if (verif_in.have_buf) {
		v_buf = malloc(splice_mode ? sizeof(struct iv_fd_pump_buf) : sizeof(struct iv_list_head) + BUF_SIZE);
		__CPROVER_assume(v_buf != NULL);
		if (splice_mode) {
			v_buf->u.pfd[0] = k_alloc(KFD_PIPE_R, 1, 0);
			v_buf->u.pfd[1] = k_alloc(KFD_PIPE_W, 1, 0);
		}
	}
	v_pump.buf = v_buf;
	__CPROVER_assume(verif_in.num_bufs == 0);
	v_tinfo.num_bufs = 0;
	INIT_IV_LIST_HEAD(&v_tinfo.bufs);
	__CPROVER_assume(verif_in.rd_eintr <= 2 && verif_in.wr_eintr <= 2);
	g_rd_eintr = verif_in.rd_eintr;
	g_wr_eintr = verif_in.wr_eintr;
	__CPROVER_assume(verif_in.rd_errno != EINTR && verif_in.wr_errno != EINTR);
	__CPROVER_assume(verif_in.rd_ret >= -1 && verif_in.wr_ret >= -1);
	pipe2_support = 1;
}


static void h_pump_common(int splice_mode)
{
	int r, bytes0, fin0, full0, rd_attempt, rd_done, wr_attempt, wr_done, rd_err, wr_err, fin_seen;

	v_build(splice_mode);
	__CPROVER_assume(splice_mode ? RI_SPLICE(&v_pump) : RI_RW(&v_pump));
	__CPROVER_assume(IMPLIES(splice_mode, verif_in.rd_ret <= (1 << 20) && verif_in.bytes <= (1 << 29)));
	__CPROVER_assume(verif_in.pipe2_errno == 0);	/* a needed buffer can be allocated (failure -> -1, trivially) */
	bytes0 = v_pump.bytes; fin0 = v_pump.saw_fin; full0 = v_pump.full;

	r = iv_fd_pump_pump(&v_pump);

	rd_attempt = (!full0 && fin0 == 0);
	rd_done = g_reads > verif_in.rd_eintr;		/* a non-interrupted read result was obtained */
	wr_done = g_writes > verif_in.wr_eintr;
	rd_err = rd_done && verif_in.rd_ret < 0 && verif_in.rd_errno != EAGAIN;
	wr_err = wr_done && (verif_in.wr_ret == 0 || (verif_in.wr_ret < 0 && verif_in.wr_errno != EAGAIN));
	fin_seen = (fin0 >= 1) || (rd_done && verif_in.rd_ret == 0);

	__CPROVER_assert(r == -1 || r == 0 || r == 1, "[C17] pump returns -1, 0 or 1");
	__CPROVER_assert(IFF(g_reads > 0, rd_attempt), "[C17] input is attempted exactly while buffer space remains and no end-of-file was seen");
	__CPROVER_assert(IMPLIES(rd_attempt, rd_done && g_reads == verif_in.rd_eintr + 1), "[C15] an interrupted read is retried until it gives a result");
	__CPROVER_assert(IMPLIES(g_writes > 0, wr_done && g_writes == verif_in.wr_eintr + 1), "[C15] an interrupted write is retried until it gives a result");
	__CPROVER_assert(IFF(g_writes > 0, !rd_err && bytes0 + g_read_n > 0), "[C17] output is attempted exactly when data is buffered");
	__CPROVER_assert(IFF(r == -1, rd_err || wr_err), "[C17] -1 exactly on an I/O error (a would-block condition or an interrupted call is not an error)");
	__CPROVER_assert(v_pump.bytes == bytes0 + g_read_n - g_write_n, "[C17,C15] conservation: buffered = previously buffered + read - written (no byte lost or duplicated)");
	if (r >= 0) {
		__CPROVER_assert(splice_mode ? RI_SPLICE(&v_pump) : (RI_RW(&v_pump) || (v_pump.buf == NULL && v_pump.bytes == 0)), "[C17,C15,C18] the pump state stays well formed (0 <= bytes <= BUF_SIZE: every later read, write and move window is computed from it)");
		__CPROVER_assert(IFF(r == 0, v_pump.saw_fin == 2), "[C17,C15] returns 0 exactly from the moment end-of-file has been relayed, 1 while more remains");
		__CPROVER_assert(v_pump.saw_fin >= fin0 && IFF(v_pump.saw_fin >= 1, fin_seen), "[C17,C15] end-of-file is noted when the input reports it and never forgotten");
		__CPROVER_assert(IFF(v_pump.saw_fin == 2, fin_seen && v_pump.bytes == 0), "[C17,C15] end-of-file is relayed as soon as, and only after, all buffered data has been delivered");
		__CPROVER_assert(g_setbands == 1, "[C17] the wanted bands are reported once per pump call");
		__CPROVER_assert(IFF(g_sb_in, v_pump.saw_fin == 0 && !v_pump.full), "[C17,C15] input is requested exactly while buffer space remains and no end-of-file was seen");
		__CPROVER_assert(IFF(g_sb_out, v_pump.bytes > 0), "[C17] output is requested exactly while data is buffered");
		if (!splice_mode)
			__CPROVER_assert(IFF(v_pump.full, v_pump.bytes == BUF_SIZE), "[C17,C15] full means no buffer space");
	}
	__CPROVER_assert(g_shutdowns == ((verif_in.relay_eof && v_pump.saw_fin == 2 && fin0 != 2) ? 1 : 0), "[C17] the output is shut down exactly once, when end-of-file is relayed, iff the caller asked for it");
	if (!splice_mode)
		__CPROVER_assert(g_memmoves == ((g_write_n > 0) ? 1 : 0), "[C17] after a partial or full write the remainder is compacted once");
	__CPROVER_assert(IFF(v_pump.buf == NULL, r < 0 || v_pump.bytes == 0 ), "[C18] the buffer is handed back exactly when the pump holds no data (or failed)");
	if (v_pump.buf == NULL && (verif_in.have_buf || g_reads > 0)) {
		if (splice_mode && r < 0 && bytes0 + g_read_n - g_write_n > 0)
			__CPROVER_assert(v_tinfo.num_bufs == 0 && k_open_count() == 0 && k_bad_close == 0, "[C18,C17] a pipe that still holds data is closed (both ends, once), not cached");
		else
			__CPROVER_assert(v_tinfo.num_bufs == 1 && k_bad_close == 0, "[C18] an empty buffer goes back to the per-thread cache");
	}
}

void h_pump_rw(void) { h_pump_common(0); CANARY(); }
void h_pump_splice(void) { h_pump_common(1); CANARY(); }

/* ---- init / destroy / is_done ------------------------------------------ */
void h_pump_init(void)
{
	v_build(0);
	iv_fd_pump_init(&v_pump);
	__CPROVER_assert(v_pump.buf == NULL && v_pump.bytes == 0 && v_pump.full == 0 && v_pump.saw_fin == 0, "[C17] fresh pump: empty, no end-of-file");
	__CPROVER_assert(g_setbands == 1 && g_sb_in && !g_sb_out, "[C17] a fresh pump asks for input only");
	__CPROVER_assert(!iv_fd_pump_is_done(&v_pump), "[C17] not done");
	CANARY();
}

void h_pump_destroy(void)
{
	int bytes0, fin0;

	v_build(-1);
	__CPROVER_assume(verif_in.splice ? RI_SPLICE(&v_pump) : RI_RW(&v_pump));
	__CPROVER_assume(IFF(verif_in.have_buf, verif_in.bytes > 0) || verif_in.have_buf);
	bytes0 = v_pump.bytes; fin0 = v_pump.saw_fin;
	iv_fd_pump_destroy(&v_pump);
	__CPROVER_assert(v_pump.buf == NULL, "[C18] destroy hands the buffer back");
	__CPROVER_assert(g_setbands == (fin0 != 2 ? 1 : 0) && IMPLIES(g_setbands, !g_sb_in && !g_sb_out), "[C17] destroy withdraws all bands unless they already were");
	if (verif_in.have_buf) {
		if (verif_in.splice && bytes0 > 0)
			__CPROVER_assert(v_tinfo.num_bufs == 0 && k_open_count() == 0 && k_bad_close == 0, "[C18,C17] a pipe buffer that still holds data is closed (both ends, each once), never cached: a later pump cannot relay stale bytes");
		else
			__CPROVER_assert(v_tinfo.num_bufs == 1 && k_bad_close == 0, "[C18] other buffers go back to the cache");
	}
	__CPROVER_assert(iv_fd_pump_is_done(&v_pump) == (fin0 == 2), "[C17] is_done reports relayed end-of-file");
	CANARY();
}

/* ---- buffer cache ------------------------------------------------------ */
void h_buf_cache(void)
{
	struct iv_fd_pump_buf *b;
	int n0;

	v_build(-1);
	__CPROVER_assume(!verif_in.have_buf && verif_in.pipe2_errno == 0);
	/* cache holding 0, 19 or 20 buffers: the list itself is not walked, only its head */
	b = buf_get();
	__CPROVER_assert(b != NULL && v_tinfo.num_bufs == 0, "[C18] empty cache: a fresh buffer is allocated");
	__CPROVER_assert(IMPLIES(verif_in.splice, k_open_count() == 2), "[C18] a pipe buffer owns exactly its two descriptors");
	__CPROVER_assume(verif_in.num_bufs == 0);
	v_tinfo.num_bufs = verif_in.full ? MAX_CACHED_BUFS : MAX_CACHED_BUFS - 1;
	n0 = v_tinfo.num_bufs;
	buf_put(b, 0);
	__CPROVER_assert(v_tinfo.num_bufs <= MAX_CACHED_BUFS, "[C18] the cache never exceeds its limit");
	__CPROVER_assert(n0 == MAX_CACHED_BUFS ? (v_tinfo.num_bufs == n0 && k_open_count() == 0 && k_bad_close == 0)
			 : (v_tinfo.num_bufs == n0 + 1 && v_tinfo.bufs.next == &b->list), "[C18] beyond the limit the buffer is released (descriptors closed once each), else it is cached");
	CANARY();
}

void h_buf_purge(void)
{
	struct iv_fd_pump_buf *b1, *b2;

	v_build(1);		/* pipe buffers: the interesting case for descriptor hygiene */
	__CPROVER_assume(!verif_in.have_buf && verif_in.pipe2_errno == 0);
	b1 = buf_get();
	b2 = buf_get();
	buf_put(b1, 0);
	buf_put(b2, 0);
	__CPROVER_assert(v_tinfo.num_bufs == 2, "two cached");
	iv_fd_pump_tls_deinit_thread(&v_tinfo);
	__CPROVER_assert(v_tinfo.num_bufs == 0 && iv_list_empty(&v_tinfo.bufs), "[C18] thread tear-down empties the buffer cache");
	__CPROVER_assert(k_open_count() == 0 && k_bad_close == 0, "[C18] and closes every cached pipe, each end exactly once");
	CANARY();
}

/* ---- pipe acquisition and splice probe ---------------------------------- */
void h_grab_pipe(void)
{
	int fd[2], r, old;

	v_build(1);
	__CPROVER_assume(!verif_in.have_buf);
	__CPROVER_assume(verif_in.splice == 0 || verif_in.splice == 1);
	pipe2_support = old = verif_in.splice;
	r = grab_pipe(fd);
	__CPROVER_assert(pipe2_support <= old, "[C15] support flag only decreases");
	__CPROVER_assert(IMPLIES(old && verif_in.pipe2_errno == ENOSYS, pipe2_support == 0), "[C15] ENOSYS from pipe2 falls back to pipe and is remembered");
	__CPROVER_assert(IMPLIES(r == 0, k_fd[fd[0]].open && k_fd[fd[1]].open && k_fd[fd[0]].cloexec && k_fd[fd[1]].cloexec && k_open_count() == 2),
			 "[C18,C15] both ends are close-on-exec whichever call created them");
	__CPROVER_assert(IMPLIES(r != 0, k_open_count() == 0), "[C18] nothing left open on failure");
	CANARY();
}

void h_check_splice(void)
{
	v_build(0);
	__CPROVER_assume(!verif_in.have_buf);
	splice_available = -1;
	pipe2_support = 1;
	check_splice_available();
	__CPROVER_assert(splice_available == 0 || splice_available == 1, "[C15] the probe decides");
	__CPROVER_assert(IFF(splice_available == 1, verif_in.pipe2_errno != 0 && verif_in.pipe2_errno != ENOSYS ? 0 :
			 ((verif_in.pipe2_errno == 0 || verif_in.pipe_errno == 0) && verif_in.probe_ret < 0 && verif_in.probe_errno == EAGAIN)),
			 "[C15] splice is used iff two pipes could be made and splicing between two empty pipes reports would-block; otherwise read/write mode");
	__CPROVER_assert(splice_available == 1 ? (v_tinfo.num_bufs == 2 && k_open_count() == 4) : (v_tinfo.num_bufs == 0 && k_open_count() == 0), "[C18,C15,C17] probe pipes are cached when usable, closed and freed otherwise (a pipe-sized block left in the cache would be used as a 4096-byte buffer by the read/write fallback)");
	__CPROVER_assert(k_bad_close == 0, "[C18] no descriptor is closed twice");
	CANARY();
}
