/*
 * Units for src/iv_wait.c  (C11, C01, C19, C18).
 *
 *  h_got_sigchld : Mode S, bounded by the number K of statuses wait4() hands
 *     out in one SIGCHLD round.  One registered interest I (pid P) and any
 *     number of strangers (any other pid).  The pid set is the real tree
 *     object holding at most that one interest, searched by the real
 *     __iv_wait_interest_find; iv_avl_tree_delete/insert, iv_event_post,
 *     wait4 are stubs with ghost logs.
 *  h_kill, h_unregister, h_completion: see below.
 */
#include "iv_wait.c"
#include "stubs/base.h"
/* lock-ownership model: until this thread holds the wait lock, the SIGCHLD reaper of another thread may
 * reap the child and mark the interest dead (enabled per unit with g_reap_at_lock) */
static void verif_on_lock(void);
#define VERIF_ON_LOCK(m)	verif_on_lock()
#include "stubs/lock.h"

#ifndef K
#define K 2
#endif

struct verif_in_t {
	int	P;			/* pid of the interest */
	int	w_pid[K + 1];		/* successive wait4() results; the last is forced <= 0 */
	int	w_status[K + 1];
	int	w_errno;
	_Bool	in_tree;		/* interest currently in the pid set */
	_Bool	dead;			/* interest already flagged dead */
	uint8_t	queued;			/* 0/1 statuses already queued on I */
	int	sig;
	int	kill_ret;
	uint8_t	act[4];			/* client choices in the completion unit */
} verif_in;

static struct iv_wait_interest	v_I;
static struct iv_wait_thr_info	v_tinfo;
static struct iv_state		v_state;
static struct wait_event	*v_pre;		/* status queued before the call, if any */

static _Bool	g_in_tree;
static int	g_wait_calls, g_posts, g_deletes, g_bad;
static int	g_exp[K + 2], g_exp_n;		/* statuses that must be queued on I, in order */

/* ---- environment ---------------------------------------------------- */
void *STUB(iv_tls_user_ptr)(const struct iv_tls_user *itu) { return &v_tinfo; }

pid_t STUB(wait4)(pid_t pid, int *wstatus, int options, struct rusage *ru)
{
	int i = g_wait_calls;

	__CPROVER_assert(g_lock_held, "[C11,C14,C19] children are reaped under the wait lock: reaping a pid and marking its interest dead are one critical section, so the kill helper (which tests the mark under the same lock) never signals a reaped pid");
	__CPROVER_assert(pid == -1 && options == (WNOHANG | WUNTRACED | WCONTINUED), "[C11] reaps any child, non-blocking, with stop and continue reports");
	__CPROVER_assert(i <= K, "wait4 call count within the bound of this unit");
	g_wait_calls++;
	if (i >= K || verif_in.w_pid[i] <= 0) {
		verif_errno = verif_in.w_errno;
		return (i >= K) ? 0 : verif_in.w_pid[i];
	}
	*wstatus = verif_in.w_status[i];
	memset(ru, 0, sizeof(*ru));
	/* reference model of C11: what must end up queued on I */
	if (verif_in.w_pid[i] == v_I.pid && g_in_tree)
		g_exp[g_exp_n++] = verif_in.w_status[i];
	return verif_in.w_pid[i];
}

void STUB(perror)(const char *s) { }

void STUB(iv_tls_user_register)(struct iv_tls_user *itu) { }

void iv_avl_tree_delete(struct iv_avl_tree *tree, struct iv_avl_node *an)
{
	__CPROVER_assert(g_lock_held, "[C11,C14] the pid set is modified under the wait lock");
	__CPROVER_assert(tree == &iv_wait_interests, "[C11] deletion from the pid set");
	__CPROVER_assert(an == &v_I.avl_node && g_in_tree, "[C11] only an interest that is in the pid set is removed from it (a child without interest is harmless)");
	g_in_tree = 0;
	tree->root = NULL;
	g_deletes++;
}

int iv_avl_tree_insert(struct iv_avl_tree *tree, struct iv_avl_node *an)
{
	__CPROVER_assert(g_lock_held, "[C11,C14] the pid set is modified under the wait lock");
	__CPROVER_assert(tree == &iv_wait_interests && an == &v_I.avl_node && !g_in_tree, "[C11] insertion of the interest into the pid set");
	g_in_tree = 1;
	tree->root = an;
	return 0;
}

void iv_event_post(struct iv_event *this)
{
	__CPROVER_assert(this == &v_I.ev, "[C11] only the matching interest is posted");
	g_posts++;
}

static int v_dead(int status) { return WIFEXITED(status) || WIFSIGNALED(status); }

static void v_build(void)
{
	VERIF_IN_LOAD();
	verif_st = &v_state;
	g_lock_held = 0; g_lock_acq = 0; g_lock_obj = &iv_wait_lock;
	g_wait_calls = 0; g_posts = 0; g_deletes = 0; g_exp_n = 0;
	__CPROVER_assume(verif_in.P > 0);
	v_I.pid = verif_in.P;
	/* invariant of the set: in the set iff registered and not flagged dead */
	__CPROVER_assume(verif_in.in_tree == !verif_in.dead);
	g_in_tree = verif_in.in_tree;
	/* the pid set is the real tree object holding at most this one interest */
	iv_wait_interests.compare = iv_wait_interest_compare;
	iv_wait_interests.root = g_in_tree ? &v_I.avl_node : NULL;
	v_I.avl_node.left = NULL; v_I.avl_node.right = NULL; v_I.avl_node.parent = NULL;
	v_I.avl_node.height = 1;
	v_I.flags = verif_in.dead ? IV_WAIT_STATUS_DEAD : 0;
	INIT_IV_LIST_HEAD(&v_I.events_pending);
	v_pre = NULL;
	if (verif_in.queued) {
		v_pre = malloc(sizeof(*v_pre));
		__CPROVER_assume(v_pre != NULL);
		v_pre->status = 0x7f;		/* some earlier stop report */
		iv_list_add_tail(&v_pre->list, &v_I.events_pending);
	}
}

void h_got_sigchld(void)
{
	struct iv_list_head *p;
	int i, n, dead_seen;

	v_build();
	iv_wait_got_sigchld(NULL);

	__CPROVER_assert(!g_lock_held && g_lock_acq == 1, "[C11] the wait lock is taken once and released");
	/* the queue of I holds exactly the expected statuses, in order, after what was there */
	p = v_I.events_pending.next;
	if (v_pre != NULL) {
		__CPROVER_assert(p == &v_pre->list, "[C11] earlier queued status keeps its place");
		p = p->next;
	}
	n = 0;
	for (i = 0; i < K; i++) {
		if (n < g_exp_n) {
			struct wait_event *we;

			__CPROVER_assert(p != &v_I.events_pending, "[C11] every reaped status of a child with an interest is queued on that interest");
			we = iv_container_of(p, struct wait_event, list);
			__CPROVER_assert(we->status == g_exp[n], "[C11] statuses are queued in the order they were reaped");
			p = p->next;
			n++;
		}
	}
	__CPROVER_assert(p == &v_I.events_pending, "[C11] nothing else is queued: strangers' statuses and statuses after the terminating one are dropped");
	__CPROVER_assert(g_posts == g_exp_n, "[C11] the interest is posted once per queued status");
	dead_seen = 0;
	for (i = 0; i < g_exp_n && i < K; i++)
		if (v_dead(g_exp[i]))
			dead_seen = 1;
	__CPROVER_assert(IMPLIES(dead_seen, !g_in_tree && (v_I.flags & IV_WAIT_STATUS_DEAD)), "[C11,C19] a terminated child's interest leaves the pid set at reap time and is flagged dead");
	__CPROVER_assert(IMPLIES(!dead_seen, g_in_tree == verif_in.in_tree && v_I.flags == (verif_in.dead ? IV_WAIT_STATUS_DEAD : 0)), "[C11,C19] otherwise (stop and continue reports, strangers) the pid set and the flag are untouched: only a terminating status marks the interest dead, so a later kill request still reaches a child that merely stopped");
	__CPROVER_assert(IMPLIES(g_exp_n > 0 && dead_seen, v_dead(g_exp[g_exp_n - 1])), "[C11] the terminating status is the last one delivered");
	CANARY();
}

/* ---- iv_wait_interest_kill (Mode D) -------------------------------------- */
static int g_kills, g_kill_pid, g_kill_sig;
int STUB(kill)(pid_t pid, int sig)
{
	__CPROVER_assert(g_lock_held, "[C11,C19] the dead flag is tested and the signal sent in one critical section");
	g_kills++;
	g_kill_pid = pid;
	g_kill_sig = sig;
	return verif_in.kill_ret;
}

static int g_reap_at_lock;
static void verif_on_lock(void)
{
	if (g_reap_at_lock && verif_in.act[3] >= 128)
		v_I.flags |= IV_WAIT_STATUS_DEAD;
}

int iv_wait_interest_kill__contract(const struct iv_wait_interest *this, int sig)
__CPROVER_requires(g_kills == 0 && !g_lock_held && g_lock_acq == 0)
__CPROVER_assigns(g_kills, g_kill_pid, g_kill_sig, g_lock_held, g_lock_acq, v_I.flags)
__CPROVER_ensures(IMPLIES(this->flags & IV_WAIT_STATUS_DEAD, g_kills == 0 && __CPROVER_return_value == -ESRCH))	/* [C11,C19] never signals a pid whose termination has been reaped -- judged by the flag as it is once the lock is held (another thread may reap the child until then) */
__CPROVER_ensures(IMPLIES(!(this->flags & IV_WAIT_STATUS_DEAD), g_kills == 1 && g_kill_pid == this->pid && g_kill_sig == sig && __CPROVER_return_value == verif_in.kill_ret))	/* [C19] otherwise exactly one kill() of that pid with that signal */
__CPROVER_ensures(!g_lock_held && g_lock_acq == 1)
;

void h_kill(void)
{
	int r;

	v_build();
	g_kills = 0;
	g_reap_at_lock = 1;
	r = CALL(iv_wait_interest_kill)(&v_I, verif_in.sig);
	CANARY();
}

/* ====================================================================
 * registration, unregistration, delivery loop (C11, C01)
 * ================================================================== */
static int g_ev_reg, g_ev_unreg, g_sig_reg, g_sig_unreg, g_forks, g_child_fn_calls, g_postfork;
static int g_hcalls, g_hstatus[4], g_unreg_in_handler, g_unreg_other_in_handler;
static struct iv_wait_interest v_J;	/* another interest of the same thread */
static _Bool g_I_freed;

int iv_event_register(struct iv_event *e) { g_ev_reg++; return 0; }
void iv_event_unregister(struct iv_event *e)
{
	g_ev_unreg++;
	__CPROVER_assert(e != &v_I.ev || !g_in_tree, "[C11,C01] the interest has left the pid set (under the wait lock) before its event is torn down: from then on no reaper, in whichever thread, can find it and post a status to it");
}
int iv_signal_register(struct iv_signal *s) { g_sig_reg++; return 0; }
void iv_signal_unregister(struct iv_signal *s) { g_sig_unreg++; }
void iv_signal_child_reset_postfork(void) { g_postfork++; }
pid_t STUB(fork)(void)
{
	__CPROVER_assert(g_lock_held, "[C11,C19] the child is created inside the critical section that also inserts its interest: the reaper cannot see the child's exit before the interest exists");
	g_forks++;
	return verif_in.kill_ret;	/* reused as the fork() result: <0 failure, >0 child pid (the child branch itself is not followed) */
}
void STUB(exit)(int c) { __CPROVER_assume(0); while (1); }

struct verif_wait_extra { int dummy; };

static void v_wait_handler(void *cookie, int status, const struct rusage *ru)
{
	__CPROVER_assert(cookie == (void *)&v_I && !g_I_freed, "[C11,C01] statuses are delivered to their own interest, and never after it was unregistered");
	__CPROVER_assert(!g_lock_held, "[C11] handlers run without the wait lock");
	if (g_hcalls < 4)
		g_hstatus[g_hcalls] = status;
	if (g_hcalls < 4 && verif_in.act[g_hcalls] == 1) {
		iv_wait_interest_unregister(&v_I);	/* from its own handler */
		g_I_freed = 1;
		g_unreg_in_handler = 1;
	} else if (g_hcalls < 4 && verif_in.act[g_hcalls] == 2 && !g_unreg_other_in_handler) {
		iv_wait_interest_unregister(&v_J);	/* another interest of the same thread */
		g_unreg_other_in_handler = 1;
	}
	g_hcalls++;
}

static void v_queue(struct iv_wait_interest *w, int status)
{
	struct wait_event *we = malloc(sizeof(*we));
	__CPROVER_assume(we != NULL);
	we->status = status;
	iv_list_add_tail(&we->list, &w->events_pending);
}

static void v_build_reg(void)
{
	v_build();
	v_tinfo.wait_count = 2;
	v_tinfo.handled_wait_interest = NULL;
	v_I.cookie = &v_I;
	v_I.handler = v_wait_handler;
	v_J.pid = (v_I.pid == 1) ? 2 : 1;
	v_J.flags = IV_WAIT_STATUS_DEAD;	/* not in the (one-node) set */
	INIT_IV_LIST_HEAD(&v_J.events_pending);
	g_lock_acq = 0;
}

/* ---- delivery loop with a most general client (bounded: up to 3 queued statuses) ---- */
void h_completion(void)
{
	int n, i, expected_calls;

	v_build_reg();
	__CPROVER_assume(verif_in.queued <= 3);
	n = verif_in.queued;
	INIT_IV_LIST_HEAD(&v_I.events_pending);
	for (i = 0; i < 3; i++)
		if (i < n)
			v_queue(&v_I, 100 + i);
	__CPROVER_assume(verif_in.act[0] <= 2 && verif_in.act[1] <= 2 && verif_in.act[2] <= 2 && verif_in.act[3] <= 2);

	iv_wait_completion(&v_I);

	/* deliveries stop after the handler that unregistered its own interest, and only then */
	expected_calls = n;
	for (i = 0; i < 3; i++)
		if (i < n && verif_in.act[i] == 1 && i + 1 < expected_calls)
			expected_calls = i + 1;
	__CPROVER_assert(g_hcalls == expected_calls, "[C11] every queued status is delivered exactly once, in order, unless the interest itself was unregistered by its handler -- unregistering another interest does not suppress anything");
	for (i = 0; i < 3; i++)
		if (i < g_hcalls)
			__CPROVER_assert(g_hstatus[i] == 100 + i, "[C11] statuses arrive in the order they were queued");
	__CPROVER_assert(v_tinfo.handled_wait_interest == NULL, "[C11] the delivery marker is cleared afterwards");
	__CPROVER_assert(!g_lock_held, "[C11] lock released");
	CANARY();
}

/* ---- unregister ------------------------------------------------------------------ */
void h_wait_unregister(void)
{
	int count0;
	struct iv_wait_interest *marker0;

	v_build_reg();
	__CPROVER_assume(verif_in.queued <= 2);
	INIT_IV_LIST_HEAD(&v_I.events_pending);
	if (verif_in.queued >= 1) v_queue(&v_I, 1);
	if (verif_in.queued >= 2) v_queue(&v_I, 2);
	__CPROVER_assume(verif_in.sig >= 1 && verif_in.sig < 1000);
	v_tinfo.wait_count = count0 = verif_in.sig;
	v_tinfo.handled_wait_interest = marker0 = (verif_in.act[0] == 0) ? NULL : (verif_in.act[0] == 1) ? &v_I : &v_J;

	iv_wait_interest_unregister(&v_I);

	__CPROVER_assert(g_ev_unreg == 1, "[C01,C11] the interest's event leaves the loop");
	__CPROVER_assert(iv_list_empty(&v_I.events_pending), "[C11,C18] statuses that were still queued are released");
	__CPROVER_assert(v_tinfo.handled_wait_interest == (marker0 == &v_I ? NULL : marker0), "[C11,C01] a running delivery loop is told to stop iff it is delivering to this very interest; a loop delivering to another interest is not disturbed");
	__CPROVER_assert(IFF(g_deletes == 1, verif_in.in_tree) && !g_in_tree, "[C11] the interest leaves the pid set unless the reaper already removed it when the child died");
	__CPROVER_assert(v_tinfo.wait_count == count0 - 1 && IFF(g_sig_unreg == 1, count0 == 1), "[C11] the thread's SIGCHLD interest goes with its last wait interest");
	__CPROVER_assert(!g_lock_held && g_lock_acq == 1, "[C11,C14] the pid set is changed under the wait lock");
	CANARY();
}

/* ---- register / register_spawn ------------------------------------------------------ */
void h_wait_register(void)
{
	int count0;

	v_build_reg();
	__CPROVER_assume(!verif_in.in_tree);	/* not yet registered: not in the pid set */
	__CPROVER_assume(verif_in.sig >= 0 && verif_in.sig < 1000);
	v_tinfo.wait_count = count0 = verif_in.sig;
	iv_wait_interest_register(&v_I);
	__CPROVER_assert(g_ev_reg == 1 && v_I.ev.handler == iv_wait_completion && v_I.ev.cookie == &v_I, "[C11] statuses are handed to the registering thread through the interest's event");
	__CPROVER_assert(iv_list_empty(&v_I.events_pending) && v_I.flags == 0, "[C11] fresh interest: nothing queued, not dead");
	__CPROVER_assert(IFF(g_sig_reg == 1, count0 == 0) && v_tinfo.wait_count == count0 + 1, "[C11] the thread's SIGCHLD interest comes with its first wait interest");
	__CPROVER_assert(g_in_tree && !g_lock_held && g_lock_acq == 1, "[C11,C14] inserted into the pid set under the wait lock");
	CANARY();
}

static void v_child_fn(void *c) { g_child_fn_calls++; }

void h_wait_register_spawn(void)
{
	int r;

	v_build_reg();
	__CPROVER_assume(!verif_in.in_tree);	/* not yet registered: not in the pid set */
	__CPROVER_assume(verif_in.kill_ret != 0);	/* parent side */
	v_tinfo.wait_count = 1;
	r = iv_wait_interest_register_spawn(&v_I, v_child_fn, NULL);
	__CPROVER_assert(g_forks == 1, "[C11] one child");
	if (verif_in.kill_ret < 0) {
		__CPROVER_assert(r == verif_in.kill_ret && !g_in_tree && g_ev_unreg == 1 && v_tinfo.wait_count == 1, "[C11,C18] a failed fork undoes the registration completely");
	} else {
		__CPROVER_assert(r == 0 && v_I.pid == verif_in.kill_ret && g_in_tree, "[C11,C19] the new child's pid is in the pid set before the lock is released: it cannot be missed however quickly it exits");
		__CPROVER_assert(g_child_fn_calls == 0, "[C11] the child function runs in the child only");
		__CPROVER_assert(v_I.flags == 0 && iv_list_empty(&v_I.events_pending), "[C19,C11,C01] a spawned interest starts out not dead with nothing queued, whatever the record held before (iv_popen re-uses freed memory): a later kill request reaches the running child");
	}
	__CPROVER_assert(!g_lock_held, "[C11] lock released on every path");
	CANARY();
}

/* ---- per-thread set-up ----------------------------------------------------------------- */
void h_wait_tls_init(void)
{
	struct iv_wait_thr_info ti, nd;

	ti = nd;
	iv_wait_tls_init_thread(&ti);
	__CPROVER_assert(ti.wait_count == 0 && ti.handled_wait_interest == NULL, "[C11] a thread starts without wait interests and without a delivery in progress");
	__CPROVER_assert(ti.sigchld_interest.signum == SIGCHLD && ti.sigchld_interest.handler == iv_wait_got_sigchld, "[C11] the thread's signal interest is for SIGCHLD and runs the reaper");
	__CPROVER_assert(ti.sigchld_interest.flags == IV_SIGNAL_FLAG_EXCLUSIVE, "[C11] the SIGCHLD interest is process-wide (any thread the kernel picks may take the signal; the reaper serves every thread's children) and exclusive (one reaper run per delivery); it is NOT tied to the receiving thread");
	CANARY();
}

