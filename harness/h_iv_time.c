/*
 * Proof units for the time arithmetic of src/iv_private.h (timespec_gt,
 * to_relative, to_msec) and the clock helpers / soonest-timeout selection of
 * src/iv_timer.c.  All loop-free over symbolic 128-bit timespecs: complete.
 * C04, C05.  Mode S (static inline functions; assertions state the contract).
 * Specifications use additions and carries only (wide multiplications do not
 * terminate in the SAT back end).
 */
#include "iv_timer.c"
#include "stubs/base.h"

struct verif_in_t {
	long	a_sec, a_nsec, b_sec, b_nsec, c_sec, c_nsec;
	long	clk_sec, clk_nsec;
	int	time_valid;
	_Bool	abs_present;
	int	num_timers;
} verif_in;

static struct iv_state	v_state;
static struct iv_timer_	v_root;
static int g_clock_reads;

void iv_time_get(struct timespec *t)
{
	g_clock_reads++;
	t->tv_sec = verif_in.clk_sec;
	t->tv_nsec = verif_in.clk_nsec;
}

#define NORM(s, n)	((n) >= 0 && (n) < 1000000000 && (s) >= 0 && (s) < (1L << 40))

static void v_build(struct timespec *a, struct timespec *b, struct timespec *c)
{
	VERIF_IN_LOAD();
	verif_st = &v_state;
	a->tv_sec = verif_in.a_sec; a->tv_nsec = verif_in.a_nsec;
	b->tv_sec = verif_in.b_sec; b->tv_nsec = verif_in.b_nsec;
	c->tv_sec = verif_in.c_sec; c->tv_nsec = verif_in.c_nsec;
	__CPROVER_assume(verif_in.time_valid == 0 || verif_in.time_valid == 1);
	v_state.time_valid = verif_in.time_valid;
	v_state.time = *b;
	g_clock_reads = 0;
}

/* ---- timespec_gt is a strict total order on (sec, nsec) pairs -------- */
void h_timespec_gt(void)
{
	struct timespec a, b, c;

	v_build(&a, &b, &c);
	__CPROVER_assert(!timespec_gt(&a, &a), "[C04,C05] expiry order is irreflexive");
	__CPROVER_assert(!(timespec_gt(&a, &b) && timespec_gt(&b, &a)), "[C04,C05] expiry order is asymmetric");
	__CPROVER_assert(IMPLIES(timespec_gt(&a, &b) && timespec_gt(&b, &c), timespec_gt(&a, &c)), "[C05] expiry order is transitive");
	__CPROVER_assert(timespec_gt(&a, &b) || timespec_gt(&b, &a) || (a.tv_sec == b.tv_sec && a.tv_nsec == b.tv_nsec), "[C05] expiry order is total: incomparable only when equal");
	__CPROVER_assert(timespec_gt(&a, &b) == 0 || timespec_gt(&a, &b) == 1, "comparison result is 0 or 1");
	__CPROVER_assert(timer_ptr_gt((struct iv_timer_ *)&a, (struct iv_timer_ *)&b) == timespec_gt(&a, &b), "[C05] heap comparison is the expiry comparison");
	CANARY();
}

/* rel == max(0, abs - now), normalised; stated with additions only */
#define REL_IS(rel, abs, now)								\
	(timespec_gt(abs, now) ?							\
	 ((rel)->tv_nsec >= 0 && (rel)->tv_nsec < 1000000000 && (rel)->tv_sec >= 0 &&	\
	  ((now)->tv_nsec + (rel)->tv_nsec < 1000000000 ?				\
	   ((now)->tv_nsec + (rel)->tv_nsec == (abs)->tv_nsec && (now)->tv_sec + (rel)->tv_sec == (abs)->tv_sec) : \
	   ((now)->tv_nsec + (rel)->tv_nsec - 1000000000 == (abs)->tv_nsec && (now)->tv_sec + (rel)->tv_sec + 1 == (abs)->tv_sec))) : \
	 ((rel)->tv_sec == 0 && (rel)->tv_nsec == 0))

void h_to_relative(void)
{
	struct timespec abs, now, c, rel, *r;

	v_build(&abs, &now, &c);
	__CPROVER_assume(NORM(abs.tv_sec, abs.tv_nsec) && NORM(now.tv_sec, now.tv_nsec) && NORM(verif_in.clk_sec, verif_in.clk_nsec));
	r = to_relative(&v_state, &rel, verif_in.abs_present ? &abs : NULL);
	if (!verif_in.abs_present) {
		__CPROVER_assert(r == NULL && g_clock_reads == 0 && v_state.time_valid == verif_in.time_valid, "[C04] no deadline: unbounded wait, clock untouched");
	} else {
		__CPROVER_assert(r == &rel, "[C04] relative timeout returned in the caller's buffer");
		__CPROVER_assert(v_state.time_valid == 1, "[C04] the loop clock is valid afterwards");
		__CPROVER_assert(IMPLIES(verif_in.time_valid, g_clock_reads == 0 && v_state.time.tv_sec == now.tv_sec && v_state.time.tv_nsec == now.tv_nsec), "[C04] a valid cached clock is not re-read");
		__CPROVER_assert(IMPLIES(!verif_in.time_valid, g_clock_reads == 1 && v_state.time.tv_sec == verif_in.clk_sec && v_state.time.tv_nsec == verif_in.clk_nsec), "[C04] an invalidated clock is read exactly once");
		__CPROVER_assert(REL_IS(&rel, &abs, &v_state.time), "[C04] relative timeout is exactly max(0, deadline - now), normalised: never beyond the deadline, zero for deadlines in the past");
	}
	CANARY();
}

/* to_msec: ms timeout rounds the relative time up to the next millisecond, capped at one day */
void h_to_msec(void)
{
	struct timespec abs, now, c, rel;
	int ms;

	v_build(&abs, &now, &c);
	__CPROVER_assume(NORM(abs.tv_sec, abs.tv_nsec) && NORM(now.tv_sec, now.tv_nsec));
	__CPROVER_assume(verif_in.time_valid == 1);
	ms = to_msec(&v_state, verif_in.abs_present ? &abs : NULL);
	if (!verif_in.abs_present) {
		__CPROVER_assert(ms == -1, "[C04] no deadline: unbounded wait (-1)");
	} else {
		to_relative(&v_state, &rel, &abs);	/* specified by h_to_relative */
		__CPROVER_assert(ms >= 0 && ms <= 86400000, "[C04] millisecond timeout is within [0, one day]");
		if (rel.tv_sec >= 86400) {
			__CPROVER_assert(ms == 86400000, "[C04] long waits are capped at one day (the loop re-evaluates afterwards): never beyond the deadline");
		} else {
			/* ms = 1000*sec + q with q*10^6 - nsec in [0, 10^6): stated on the 32-bit remainder */
			int q = ms - 1000 * (int)rel.tv_sec;
			__CPROVER_assert(q >= 0 && q <= 1000, "[C04] sub-second part of the millisecond timeout is in range");
			__CPROVER_assert((long)q * 1000000 >= rel.tv_nsec, "[C04,C07] rounded up: the wait is never shorter than the time to the deadline (no busy loop of zero-timeout polls before expiry)");
			__CPROVER_assert((long)q * 1000000 - rel.tv_nsec < 1000000, "[C04] rounded up by less than one millisecond: the loop never oversleeps beyond that");
		}
	}
	CANARY();
}

/* clock helpers */
void h_now_valid(void)
{
	struct timespec a, now, c;
	const struct timespec *p;

	v_build(&a, &now, &c);
	p = __iv_now_location_valid();
	__CPROVER_assert(p == &v_state.time && v_state.time_valid == 1, "[C04] iv_now is the loop clock, valid afterwards");
	__CPROVER_assert(IMPLIES(verif_in.time_valid, g_clock_reads == 0), "[C04] cached while valid");
	__CPROVER_assert(IMPLIES(!verif_in.time_valid, g_clock_reads == 1 && v_state.time.tv_sec == verif_in.clk_sec && v_state.time.tv_nsec == verif_in.clk_nsec), "[C04] re-read once when invalid");
	iv_invalidate_now();
	__CPROVER_assert(v_state.time_valid == 0, "[C04] iv_invalidate_now invalidates the loop clock");
	iv_validate_now();
	__CPROVER_assert(v_state.time_valid == 1, "[C04] iv_validate_now re-validates it");
	CANARY();
}

/* soonest timeout = expiry of the heap root, NULL without timers */
void h_soonest(void)
{
	struct timespec a, b, c;
	const struct timespec *p;

	v_build(&a, &b, &c);
	__CPROVER_assume(verif_in.num_timers >= 0);
	v_state.num_timers = verif_in.num_timers;
	v_state.ratnode.first_leaf.child[1] = &v_root;
	v_root.expires = a;
	p = iv_get_soonest_timeout(&v_state);
	__CPROVER_assert(IFF(p == NULL, verif_in.num_timers == 0), "[C04] no deadline iff no timer is registered");
	__CPROVER_assert(IMPLIES(p != NULL, p == &v_root.expires), "[C04] the wait deadline is the expiry of the heap root (the earliest timer, by the heap invariant)");
	CANARY();
}
