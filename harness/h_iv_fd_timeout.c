/*
 * Proof units for the repeated-deadline kernel-timer optimisation of
 * src/iv_fd.c: iv_fd_timeout_check and the wait step of iv_fd_poll_and_run,
 * against a ghost kernel timer.  C04, C15.  Mode S (static functions,
 * loop-free => complete over all (last_abs, last_abs_count, abs)).
 */
#include <fcntl.h>
int verif_fcntl(int fd, int cmd, int arg);
#define fcntl(fd, cmd, ...)	verif_fcntl(fd, cmd, __VA_ARGS__ + 0)
#include "iv_fd.c"
#undef fcntl
#include "stubs/base.h"

int verif_fcntl(int fd, int cmd, int arg) { return 0; }

struct verif_in_t {
	long	abs_sec, abs_nsec, last_sec, last_nsec;
	_Bool	abs_present;
	int	count;
	_Bool	set_ok;
	int	poll_ret;
	_Bool	has_set;
} verif_in;

static struct iv_state		v_state;
static struct iv_fd_poll_method	v_bi;
static struct timespec		v_abs;

/* ghost kernel timer */
static _Bool		g_armed, g_switched;
static struct timespec	g_armed_at;
static int		g_set_calls, g_clear_calls, g_poll_calls;
static const struct timespec *g_poll_abs;

static int bi_set_poll_timeout(struct iv_state *st, const struct timespec *abs)
{
	__CPROVER_assert(st == verif_st && abs != NULL, "[C04] the kernel timer is armed with a real deadline");
	g_set_calls++;
	if (verif_in.set_ok) {
		g_armed = 1;
		g_armed_at = *abs;
		return 1;
	}
	g_switched = 1;		/* timer descriptors unavailable: the method drops the optimisation */
	v_bi.set_poll_timeout = NULL;
	return 0;
}

static void bi_clear_poll_timeout(struct iv_state *st)
{
	__CPROVER_assert(g_armed, "[C04] the kernel timer is cleared only while armed");
	g_armed = 0;
	g_clear_calls++;
}

static int bi_poll(struct iv_state *st, struct iv_list_head *active, const struct timespec *abs)
{
	g_poll_calls++;
	g_poll_abs = abs;
	if (abs == NULL && verif_in.poll_ret != 0)
		g_armed = 0;	/* the one-shot kernel timer fired */
	return verif_in.poll_ret;
}

#define INV()	(v_state.last_abs_count >= 0 && v_state.last_abs_count <= 5 &&			\
		 (g_switched || (IFF(v_state.last_abs_count == 5, g_armed) &&				\
		  IMPLIES(g_armed, g_armed_at.tv_sec == v_state.last_abs.tv_sec && g_armed_at.tv_nsec == v_state.last_abs.tv_nsec))))

static void v_build(void)
{
	VERIF_IN_LOAD();
	verif_st = &v_state;
	method = &v_bi;
	v_bi.set_poll_timeout = bi_set_poll_timeout;
	v_bi.clear_poll_timeout = bi_clear_poll_timeout;
	v_bi.poll = bi_poll;
	__CPROVER_assume(verif_in.count >= 0 && verif_in.count <= 5);
	__CPROVER_assume(verif_in.abs_nsec >= 0 && verif_in.abs_nsec < 1000000000 && verif_in.last_nsec >= 0 && verif_in.last_nsec < 1000000000);
	v_state.last_abs_count = verif_in.count;
	v_state.last_abs.tv_sec = verif_in.last_sec;
	v_state.last_abs.tv_nsec = verif_in.last_nsec;
	v_abs.tv_sec = verif_in.abs_sec;
	v_abs.tv_nsec = verif_in.abs_nsec;
	g_armed = (verif_in.count == 5);
	g_armed_at = v_state.last_abs;
	g_switched = 0;
	g_set_calls = g_clear_calls = g_poll_calls = 0;
}

void h_timeout_check(void)
{
	const struct timespec *abs;
	int r;

	v_build();
	abs = verif_in.abs_present ? &v_abs : NULL;
	r = iv_fd_timeout_check(&v_state, abs);

	__CPROVER_assert(r == 0 || r == 1, "verdict is 0 or 1");
	__CPROVER_assert(INV(), "[C04,C06,C07,C05] invariant kept: the kernel timer is armed iff the same deadline was seen five times, and then at that deadline");
	__CPROVER_assert(IMPLIES(r == 1, g_armed && (abs == NULL || !timespec_gt(&g_armed_at, abs))),
			 "[C04,C07,C06,C05] an unbounded kernel wait is chosen only while the kernel timer is armed at or before the deadline: no oversleep, the loop cannot hang past a due timer");
	__CPROVER_assert(IMPLIES(verif_in.count == 5 && abs != NULL && timespec_gt(&v_state.last_abs, abs) && !(verif_in.last_sec == v_abs.tv_sec && verif_in.last_nsec == v_abs.tv_nsec), 1), "trivial");
	__CPROVER_assert(IMPLIES(verif_in.count == 5 && abs != NULL && timespec_gt(&g_armed_at, abs) && r == 1, 0), "[C04,C07] a strictly earlier deadline never rides on the old kernel timer");
	__CPROVER_assert(IMPLIES(verif_in.count == 5 && abs != NULL &&
			 (abs->tv_sec < verif_in.last_sec || (abs->tv_sec == verif_in.last_sec && abs->tv_nsec < verif_in.last_nsec)),
			 g_clear_calls == 1 && v_state.last_abs_count == 1 && r == 0),
			 "[C04,C06,C05] a strictly earlier deadline (a newly registered earlier timer, a task's zero timeout) disarms the kernel timer and restarts the count");
	__CPROVER_assert(g_set_calls <= 1 && IMPLIES(g_set_calls == 1, v_state.last_abs_count == 5 && verif_in.count == 4),
			 "[C04] the kernel timer is armed exactly when the same deadline is seen for the fifth time");
	__CPROVER_assert(IMPLIES(g_set_calls == 1 && !verif_in.set_ok, r == 0 && g_switched),
			 "[C15] if timer descriptors are unavailable the deadline is passed to the wait itself");
	CANARY();
}

void h_poll_and_run_wait(void)
{
	const struct timespec *abs;
	int r;

	v_build();
	if (!verif_in.has_set)
		v_bi.set_poll_timeout = NULL;
	abs = verif_in.abs_present ? &v_abs : NULL;
	r = iv_fd_poll_and_run(&v_state, abs);

	__CPROVER_assert(g_poll_calls == 1, "[C07] exactly one kernel wait per iteration");
	__CPROVER_assert(r == verif_in.poll_ret, "[C04] the wait's verdict on re-running timers is returned to iv_main");
	__CPROVER_assert(g_poll_abs == NULL || g_poll_abs == abs, "[C04] the wait gets the caller's deadline or none");
	__CPROVER_assert(IMPLIES(g_poll_abs == NULL && abs != NULL, !g_switched && verif_in.has_set), "[C04] the deadline is withheld only by the kernel-timer path");
	__CPROVER_assert(IMPLIES(g_poll_abs == NULL && abs != NULL && verif_in.poll_ret == 0, g_armed && !timespec_gt(&g_armed_at, abs)),
			 "[C04,C07,C06] an unbounded wait with a pending deadline happens only with the kernel timer armed at or before it (no oversleep)");
	__CPROVER_assert(IMPLIES(g_poll_abs == NULL && abs != NULL && verif_in.poll_ret != 0, v_state.last_abs_count == 0),
			 "[C04] when the kernel timer fired the count restarts, so the next equal deadlines re-arm it");
	__CPROVER_assert(IMPLIES(verif_in.has_set, INV()), "[C04,C06,C07] kernel-timer invariant kept across the wait");
	CANARY();
}
