/*
 * Units for the system-call facing part of src/iv_fd_epoll.c: descriptor
 * creation with fallbacks (epoll_create1 -> epoll_create, timerfd_create
 * ENOSYS -> plain epoll method in mid-run), kernel timer arm/clear, the
 * shared cross-thread kick descriptor (event_rx_on/off/send), init/deinit
 * pairing.  C04, C07, C08, C15, C18.  Mode S against ghost kernel models.
 */
#include <unistd.h>
#include <sys/syscall.h>
long verif_syscall(long nr, long a, long b);
#define VERIF_SYS3(nr, a, b, ...)	verif_syscall(nr, a, b)
#define syscall(...)			VERIF_SYS3(__VA_ARGS__, 0, 0)
#include "iv_fd_epoll.c"
#undef syscall
#include "stubs/base.h"
#include "stubs/lock.h"
static int g_shared_kick_fd = -1, g_kick_closed_unlocked, g_track_kick_create, g_kick_created_unlocked;
#define VERIF_ON_OPEN(kind)	do { if (g_track_kick_create && !g_lock_held) g_kick_created_unlocked++; } while (0)
#define VERIF_ON_CLOSE(fd)	do { if ((fd) == g_shared_kick_fd && !g_lock_held) g_kick_closed_unlocked++; } while (0)
#include "stubs/fd_model.h"
#include "stubs/epoll_model.h"

struct verif_in_t {
	int	create1_errno, create_errno;	/* 0 = success */
	int	tfd_errno;
	int	efd2_errno, efd_errno, pipe_errno;
	long	abs_sec, abs_nsec;
	int	epoll_support, refcount;
	int	numobjs;
	uint8_t	eintr;
	_Bool	timer_fd_exists;
	int	write_ret;
	int	ctl_fail;
} verif_in;

static struct iv_state	v_state, v_dest;
const struct iv_fd_poll_method *method;

/* ---- ghost kernel: creation calls ------------------------------------ */
static int g_cloexec_set_on = -1;
void iv_fd_set_cloexec(int fd)
{
	if (fd >= 0 && fd < KFD_MAX)
		k_fd[fd].cloexec = 1;
	g_cloexec_set_on = fd;
}
void iv_fd_make_ready(struct iv_list_head *a, struct iv_fd_ *fd, int b) { }
void iv_event_run_pending_events(void) { }
void iv_time_get(struct timespec *t) { t->tv_sec = 0; t->tv_nsec = 0; }

static int g_create1_calls, g_create_calls, g_efd2_calls, g_efd_calls;

long verif_syscall(long nr, long a, long b)
{
	if (nr == __NR_epoll_create1) {
		g_create1_calls++;
		if (verif_in.create1_errno) { verif_errno = verif_in.create1_errno; return -1; }
		return k_alloc(KFD_EPOLL, a & EPOLL_CLOEXEC, 0);
	}
	if (nr == __NR_eventfd2) {
		g_efd2_calls++;
		if (verif_in.efd2_errno) { verif_errno = verif_in.efd2_errno; return -1; }
		return k_alloc(KFD_EVENTFD, b & EFD_CLOEXEC, b & EFD_NONBLOCK);
	}
	if (nr == __NR_eventfd) {
		g_efd_calls++;
		if (verif_in.efd_errno) { verif_errno = verif_in.efd_errno; return -1; }
		return k_alloc(KFD_EVENTFD, 0, 0);
	}
	__CPROVER_assert(0, "unexpected raw system call");
	return -1;
}

int STUB(epoll_create)(int size)
{
	g_create_calls++;
	if (verif_in.create_errno) { verif_errno = verif_in.create_errno; return -1; }
	return k_alloc(KFD_EPOLL, 0, 0);
}

static int g_tfd_calls, g_settime_calls;
static _Bool g_tfd_armed; static struct timespec g_tfd_at;

int STUB(timerfd_create)(int clockid, int flags)
{
	g_tfd_calls++;
	__CPROVER_assert(clockid == CLOCK_MONOTONIC, "[C04] the kernel timer runs on the monotonic clock");
	if (verif_in.tfd_errno) { verif_errno = verif_in.tfd_errno; return -1; }
	return k_alloc(KFD_TIMERFD, flags & TFD_CLOEXEC, flags & TFD_NONBLOCK);
}

int STUB(timerfd_settime)(int fd, int flags, const struct itimerspec *nv, struct itimerspec *ov)
{
	g_settime_calls++;
	__CPROVER_assert(fd >= 0 && fd < KFD_MAX && k_fd[fd].open && k_fd[fd].kind == KFD_TIMERFD, "[C04] timerfd_settime on this thread's open timer descriptor");
	__CPROVER_assert(flags == TFD_TIMER_ABSTIME, "[C04] deadlines are absolute");
	__CPROVER_assert(nv->it_interval.tv_sec == 0 && nv->it_interval.tv_nsec == 0, "[C04] one-shot");
	g_tfd_armed = !(nv->it_value.tv_sec == 0 && nv->it_value.tv_nsec == 0);
	g_tfd_at = nv->it_value;
	return 0;
}

static int g_pipe_calls, g_write_calls;
int STUB(pipe)(int pfd[2])
{
	g_pipe_calls++;
	if (verif_in.pipe_errno) { verif_errno = verif_in.pipe_errno; return -1; }
	pfd[0] = k_alloc(KFD_PIPE_R, 0, 0);
	pfd[1] = k_alloc(KFD_PIPE_W, 0, 0);
	return 0;
}

ssize_t STUB(write)(int fd, const void *buf, size_t n)
{
	g_write_calls++;
	__CPROVER_assert(fd >= 0 && fd < KFD_MAX && k_fd[fd].open && k_fd[fd].kind == KFD_EVENTFD && n == 8, "[C08] the permanently-active descriptor is an eventfd written once with 8 bytes");
	return 8;
}
ssize_t STUB(read)(int fd, void *buf, size_t n) { return 8; }
int STUB(epoll_wait)(int epfd, struct epoll_event *ev, int max, int ms) { verif_errno = EINTR; return -1; }
int STUB(epoll_pwait2)(int epfd, struct epoll_event *ev, int max, const struct timespec *to, const sigset_t *ss) { verif_errno = EINTR; return -1; }

static void v_build(void)
{
	VERIF_IN_LOAD();
	verif_st = &v_state;
	method = &iv_fd_poll_method_epoll_timerfd;
	__CPROVER_assume(verif_in.eintr <= 2);
	k_eintr_budget = verif_in.eintr;
	k_ctl_calls = 0; k_ctl_bad = 0; k_ctl_refuse = 0;
	g_lock_held = 0; g_lock_acq = 0; g_lock_obj = &iv_fd_epoll_active_fd_mutex;
	__CPROVER_assume(verif_in.numobjs >= 0 && verif_in.numobjs < 100000);
	v_state.numobjs = verif_in.numobjs;
	INIT_IV_LIST_HEAD(&v_state.u.epoll.notify);
}

/* ---- epollfd_grab / init ------------------------------------------------ */
void h_epollfd_grab(void)
{
	int fd, old;

	v_build();
	__CPROVER_assume(verif_in.epoll_support >= 0 && verif_in.epoll_support <= 2);
	epoll_support = old = verif_in.epoll_support;
	fd = epollfd_grab();
	__CPROVER_assert(epoll_support <= old, "[C15] the detected support level only ever decreases (idempotent one-way flag)");
	__CPROVER_assert(IMPLIES(old == 2, g_create1_calls == 1), "[C15] epoll_create1 is tried first");
	__CPROVER_assert(IMPLIES(old == 2 && verif_in.create1_errno == ENOSYS, g_create_calls == 1 && epoll_support <= 1), "[C15] ENOSYS from epoll_create1 falls back to epoll_create and is remembered");
	__CPROVER_assert(IMPLIES(old == 2 && verif_in.create1_errno != ENOSYS, g_create_calls == 0), "[C15] any other outcome of epoll_create1 is final");
	__CPROVER_assert(IMPLIES(fd >= 0, k_fd[fd].open && k_fd[fd].kind == KFD_EPOLL && k_fd[fd].cloexec), "[C18,C15] a returned epoll descriptor is close-on-exec whichever call created it");
	__CPROVER_assert(IMPLIES(fd < 0, k_open_count() == 0), "[C18] nothing is left open on failure");
	__CPROVER_assert(IMPLIES(old == 0, fd == -1 && g_create1_calls == 0 && g_create_calls == 0), "[C15] known-absent epoll is not retried");
	CANARY();
}

void h_epoll_init_deinit(void)
{
	int r;

	v_build();
	epoll_support = 2;
	r = iv_fd_epoll_init(&v_state);
	if (r >= 0) {
		__CPROVER_assert(v_state.u.epoll.timer_fd == -1 && iv_list_empty(&v_state.u.epoll.notify), "[C18] fresh backend state: no timer descriptor, nothing pending");
		__CPROVER_assert(k_open_count() == 1, "[C18] exactly the epoll descriptor is open after init");
		if (verif_in.timer_fd_exists) {
			struct timespec abs = { verif_in.abs_sec, verif_in.abs_nsec };
			k_fdnum[0] = -7; k_fdnum[1] = -7; k_fdnum[2] = 4; k_epfd = v_state.u.epoll.epoll_fd;
			__CPROVER_assume(verif_in.tfd_errno == 0 || verif_in.tfd_errno == ENOSYS);
			iv_fd_epoll_timerfd_set_poll_timeout(&v_state, &abs);
		}
		iv_fd_epoll_deinit(&v_state);
		__CPROVER_assert(k_open_count() == 0 && k_bad_close == 0, "[C18] deinit closes every descriptor the backend opened (epoll and timer), each exactly once");
	} else {
		__CPROVER_assert(k_open_count() == 0, "[C18] failed init leaves nothing open");
	}
	CANARY();
}

/* ---- kernel timer ----------------------------------------------------- */
void h_timerfd_set(void)
{
	struct timespec abs;
	int r, tfd = -1;

	v_build();
	__CPROVER_assume(verif_in.abs_nsec >= 0 && verif_in.abs_nsec < 1000000000 && verif_in.abs_sec >= 0);
	__CPROVER_assume(verif_in.tfd_errno == 0 || verif_in.tfd_errno == ENOSYS);	/* other errors are fatal by design */
	abs.tv_sec = verif_in.abs_sec; abs.tv_nsec = verif_in.abs_nsec;
	v_state.u.epoll.epoll_fd = k_alloc(KFD_EPOLL, 1, 0);
	k_epfd = v_state.u.epoll.epoll_fd;
	v_state.u.epoll.timer_fd = -1;
	if (verif_in.timer_fd_exists) {
		tfd = k_alloc(KFD_TIMERFD, 1, 1);
		v_state.u.epoll.timer_fd = tfd;
	}
	k_fdnum[0] = -7; k_fdnum[1] = -7;
	k_fdnum[2] = verif_in.timer_fd_exists ? tfd : 4;	/* the slot the new timer descriptor will take */
	k_ep[2].present = verif_in.timer_fd_exists;
	k_ep[2].events = EPOLLIN; k_ep[2].ptr = &v_state.time;

	r = iv_fd_epoll_timerfd_set_poll_timeout(&v_state, &abs);

	if (!verif_in.timer_fd_exists && verif_in.tfd_errno == ENOSYS) {
		__CPROVER_assert(r == 0 && method == &iv_fd_poll_method_epoll, "[C15,C04,C05] timer descriptors missing: the thread falls back to the plain epoll method in mid-run and the caller passes the deadline to the wait itself");
		__CPROVER_assert(!g_tfd_armed && v_state.u.epoll.timer_fd == -1 && g_settime_calls == 0, "[C15] nothing is armed");
		__CPROVER_assert(iv_list_empty(&v_state.u.epoll.notify) && k_ctl_calls == 0, "[C15] registered interests and pending updates are untouched by the fallback");
	} else {
		__CPROVER_assert(r == 1, "[C04] armed");
		__CPROVER_assert(g_tfd_armed, "[C04] the kernel timer is armed (a zero expiry is nudged to 1 ns so that it still fires)");
		__CPROVER_assert(abs.tv_sec == 0 && abs.tv_nsec == 0 ? (g_tfd_at.tv_sec == 0 && g_tfd_at.tv_nsec == 1)
				 : (g_tfd_at.tv_sec == abs.tv_sec && g_tfd_at.tv_nsec == abs.tv_nsec), "[C04] at exactly the requested absolute deadline");
		__CPROVER_assert(k_fd[v_state.u.epoll.timer_fd].open && k_fd[v_state.u.epoll.timer_fd].kind == KFD_TIMERFD &&
				 k_fd[v_state.u.epoll.timer_fd].cloexec && k_fd[v_state.u.epoll.timer_fd].nonblock, "[C18] the timer descriptor is close-on-exec and non-blocking");
		__CPROVER_assert(k_ep[2].present && k_ep[2].events == EPOLLIN && k_ep[2].ptr == (void *)&v_state.time && k_ctl_bad == 0,
				 "[C04] it is watched by this thread's epoll set under the timer tag");
		__CPROVER_assert(method == &iv_fd_poll_method_epoll_timerfd, "[C15] method unchanged");
	}
	CANARY();
}

void h_timerfd_clear(void)
{
	int tfd;

	v_build();
	tfd = k_alloc(KFD_TIMERFD, 1, 1);
	v_state.u.epoll.timer_fd = tfd;
	g_tfd_armed = 1;
	iv_fd_epoll_timerfd_clear_poll_timeout(&v_state);
	__CPROVER_assert(!g_tfd_armed && g_settime_calls == 1, "[C04] the kernel timer is disarmed");
	CANARY();
}

/* ---- shared kick descriptor -------------------------------------------- */
static void v_build_kick(void)
{
	v_build();
	v_state.u.epoll.epoll_fd = k_alloc(KFD_EPOLL, 1, 0);
	k_epfd = v_state.u.epoll.epoll_fd;
	__CPROVER_assume(verif_in.refcount >= 0 && verif_in.refcount < 1000);
	iv_active_fd_refcount = verif_in.refcount;
	k_fdnum[0] = -7; k_fdnum[1] = -7;
	if (verif_in.refcount > 0) {
		iv_active_fd = k_alloc(KFD_EVENTFD, 1, 1);
		k_fdnum[2] = iv_active_fd;
	} else {
		iv_active_fd = -1;
		k_fdnum[2] = 4;		/* slot the new descriptor will take */
	}
	eventfd_in_use = 2;
	__CPROVER_assume(verif_in.efd2_errno == 0 || verif_in.efd2_errno == ENOSYS || verif_in.efd2_errno == EINVAL);
	__CPROVER_assume(verif_in.efd_errno == 0 || verif_in.efd_errno == ENOSYS);
	__CPROVER_assume(verif_in.pipe_errno == 0);	/* pipe failure is fatal by design */
}

void h_event_rx_on(void)
{
	int r;

	v_build_kick();
	k_ep[2].present = 0;
	/* the kernel may refuse the kick registration (watch limit, memory) */
	__CPROVER_assume(verif_in.ctl_fail == 0 || verif_in.ctl_fail == ENOSPC || verif_in.ctl_fail == ENOMEM);
	k_ctl_refuse = verif_in.ctl_fail;
	g_track_kick_create = 1;
	r = iv_fd_epoll_event_rx_on(&v_state);
	k_ctl_refuse = 0;
	__CPROVER_assert(IFF(r == 0, verif_in.ctl_fail == 0), "[C08,C15] the verdict of the kick registration is passed on: on refusal the caller falls back to the raw transport");
	g_track_kick_create = 0;
	__CPROVER_assert(g_kick_created_unlocked == 0, "[C08,C07,C14] the process-wide kick descriptor is created (and published) inside the critical section that counted its first user: a thread that registers in between must not find the count raised and the descriptor missing");
	__CPROVER_assert(iv_active_fd_refcount == verif_in.refcount + 1, "[C18] the shared descriptor is reference counted");
	__CPROVER_assert(!g_lock_held && g_lock_acq == 1, "[C08,C14] the reference count and the descriptor are changed under their mutex");
	__CPROVER_assert(IMPLIES(verif_in.refcount > 0, k_opens == 2), "[C18] an existing shared descriptor is reused");
	__CPROVER_assert(IMPLIES(verif_in.refcount == 0, iv_active_fd >= 0 && k_fd[iv_active_fd].open), "[C08] first user creates the permanently-active descriptor");
	__CPROVER_assert(IMPLIES(verif_in.refcount == 0 && k_fd[iv_active_fd].kind == KFD_PIPE_R, k_open_count() == 2 && g_pipe_calls == 1), "[C15,C18] pipe fallback: the write end is closed (a read end at EOF is permanently readable), nothing else stays open");
	__CPROVER_assert(IMPLIES(verif_in.refcount == 0 && k_fd[iv_active_fd].kind == KFD_EVENTFD, g_write_calls == 1), "[C08] an eventfd is made permanently readable");
	if (r == 0) {
		__CPROVER_assert(k_ep[2].present && k_ep[2].events == 0 && k_ep[2].ptr == (void *)&v_state, "[C08] registered disarmed (empty mask) under this thread's kick tag");
		__CPROVER_assert(v_state.numobjs == verif_in.numobjs + 1, "[C07] the armed transport counts as one loop object");
	} else {
		__CPROVER_assert(v_state.numobjs == verif_in.numobjs, "[C07,C15,C08] failure leaves the object count alone (the caller falls back to the raw transport, which does its own accounting)");
	}
	CANARY();
}

void h_event_rx_off(void)
{
	v_build_kick();
	__CPROVER_assume(verif_in.refcount >= 1 && verif_in.numobjs >= 1);
	k_ep[2].present = 1; k_ep[2].events = 0; k_ep[2].ptr = &v_state;
	g_shared_kick_fd = iv_active_fd;
	iv_fd_epoll_event_rx_off(&v_state);
	__CPROVER_assert(g_kick_closed_unlocked == 0, "[C08,C14] the process-wide kick descriptor is closed inside the critical section that found its last user gone: after the unlock another thread may already have created (and been handed the number of) a fresh one");
	__CPROVER_assert(!k_ep[2].present && k_ctl_bad == 0, "[C08,C18] the kick registration is removed from this thread's epoll set");
	__CPROVER_assert(iv_active_fd_refcount == verif_in.refcount - 1, "[C18] reference dropped");
	__CPROVER_assert(IFF(verif_in.refcount == 1, k_closes == 1) && k_bad_close == 0, "[C18] the shared descriptor is closed by its last user, once");
	__CPROVER_assert(v_state.numobjs == verif_in.numobjs - 1, "[C07] accounting: -1");
	__CPROVER_assert(!g_lock_held && g_lock_acq == 1, "[C08,C14] under the mutex");
	CANARY();
}

void h_event_send(void)
{
	v_build_kick();
	__CPROVER_assume(verif_in.refcount >= 1);
	v_dest.u.epoll.epoll_fd = k_epfd;
	k_ep[2].present = 1; k_ep[2].events = 0; k_ep[2].ptr = &v_dest;
	iv_fd_epoll_event_send(&v_dest);
	__CPROVER_assert(k_ep[2].present && k_ep[2].events == (EPOLLIN | EPOLLONESHOT) && k_ep[2].ptr == (void *)&v_dest && k_ctl_bad == 0,
			 "[C08] the destination's kick entry is re-armed one-shot for input with the destination's tag: its next wait returns at once");
	CANARY();
}
