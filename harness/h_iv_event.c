/*
 * Proof units for src/iv_event.c: iv_event_register / iv_event_unregister
 * (C07 accounting incl. the failure path, C08 transport on/off, C01 unlink).
 * Mode D.  iv_event_raw_register/unregister are replaced by their contracts;
 * the poll method's event_rx_on/off hooks are bound to stubs that follow
 * iv_fd_epoll_event_rx_on/off (one loop object while the transport is on).
 */
#include "iv_event.c"
#include "stubs/base.h"
#include "stubs/lock.h"

int g_raw_registered, g_raw_posts;
const struct iv_event_raw *g_raw_post_last;
#include "contracts/iv_event_raw.h"

int g_rx_on;		/* ghost: epoll kick transport armed for this thread */

struct verif_in_t {
	int	numobjs;
	int	event_count;
	int	use_raw;
	_Bool	method_has_rx;
	_Bool	rx_on_ok;
	uint8_t	queued;		/* 0 not queued, 1 only element, 2 between two nodes */
} verif_in;

static struct iv_state		v_state;
static struct iv_event		v_ev;
static struct iv_list_head	v_n1, v_n2;
static struct iv_fd_poll_method	v_method;
const struct iv_fd_poll_method	*method;

static int v_rx_on(struct iv_state *st)
{
	if (verif_in.rx_on_ok) {
		st->numobjs++;
		g_rx_on++;
		return 0;
	}
	return -1;
}

static void v_rx_off(struct iv_state *st)
{
	__CPROVER_assert(g_rx_on == 1, "[C08] kick transport is switched off only when it is on");
	st->numobjs--;
	g_rx_on--;
}

static void v_build(void)
{
	VERIF_IN_LOAD();
	verif_st = &v_state;
	v_state.numobjs = verif_in.numobjs;
	v_state.event_count = verif_in.event_count;
	__CPROVER_assume(verif_in.use_raw == 0 || verif_in.use_raw == 1);
	iv_event_use_event_raw = verif_in.use_raw;
	method = &v_method;
	v_method.event_rx_on = verif_in.method_has_rx ? v_rx_on : NULL;
	v_method.event_rx_off = v_rx_off;
	g_lock_held = 0;
	g_lock_acq = 0;
	g_lock_obj = &v_state.event_list_mutex;
	/* state invariant of a multi-thread build: a transport is on iff an event is registered */
	__CPROVER_assume(verif_in.event_count >= 0);
	g_rx_on = (verif_in.event_count > 0 && !verif_in.use_raw);
	g_raw_registered = (verif_in.event_count > 0 && verif_in.use_raw);
	g_raw_posts = 0;
}

int iv_event_register__contract(struct iv_event *this)
__CPROVER_requires(verif_st->numobjs >= 0 && verif_st->numobjs < INT_MAX - 2)
__CPROVER_requires(verif_st->event_count >= 0 && verif_st->event_count < INT_MAX)
__CPROVER_assigns(verif_st->numobjs, verif_st->numfds, verif_st->event_count, iv_event_use_event_raw,
		  verif_st->events_kick.event_rfd, verif_st->events_kick.event_wfd,
		  this->owner, this->list, g_rx_on, g_raw_registered)
__CPROVER_ensures(__CPROVER_return_value == 0 || __CPROVER_return_value == -1)
__CPROVER_ensures(IMPLIES(__CPROVER_return_value != 0,
	verif_st->numobjs == __CPROVER_old(verif_st->numobjs) &&
	verif_st->event_count == __CPROVER_old(verif_st->event_count) &&
	g_rx_on == __CPROVER_old(g_rx_on) && g_raw_registered == __CPROVER_old(g_raw_registered)))	/* [C07,C08] a failed registration leaves the loop exactly as it was (object count, event count, transports): a later registration arms the wake-up transport afresh */
__CPROVER_ensures(IMPLIES(__CPROVER_return_value == 0,
	verif_st->event_count == __CPROVER_old(verif_st->event_count) + 1 &&
	verif_st->numobjs == __CPROVER_old(verif_st->numobjs) + 1 + (__CPROVER_old(verif_st->event_count) == 0 ? 1 : 0)))	/* [C07] accounting: the event, plus one object for the wake-up transport when it is switched on */
__CPROVER_ensures(IMPLIES(__CPROVER_return_value == 0,
	g_rx_on + g_raw_registered == 1 && IFF(g_raw_registered, iv_event_use_event_raw)))	/* [C08,C15] exactly one wake-up transport is armed while events are registered; raw-event fallback iff the epoll kick is unavailable */
__CPROVER_ensures(IMPLIES(__CPROVER_return_value == 0,
	this->owner == verif_st && this->list.next == &this->list && this->list.prev == &this->list))	/* [C08] owned by the registering thread, not pending */
;

void h_iv_event_register(void)
{
	int r;

	v_build();
	r = CALL(iv_event_register)(&v_ev);
	CANARY();
}

/* ------------------------------------------------------------------ */
void iv_event_unregister__contract(struct iv_event *this)
__CPROVER_requires(this->owner == verif_st)
__CPROVER_requires(verif_st->event_count >= 1 && verif_st->numobjs >= 2)
__CPROVER_requires(g_rx_on + g_raw_registered == 1 && IFF(g_raw_registered, iv_event_use_event_raw))
__CPROVER_requires(WF_NODE(&this->list))
__CPROVER_assigns(verif_st->numobjs, verif_st->numfds, verif_st->event_count,
		  verif_st->events_kick.event_rfd, this->list,
		  this->list.prev->next, this->list.next->prev,
		  g_rx_on, g_raw_registered, g_lock_held, g_lock_acq)
__CPROVER_ensures(verif_st->event_count == __CPROVER_old(verif_st->event_count) - 1)
__CPROVER_ensures(verif_st->numobjs == __CPROVER_old(verif_st->numobjs) - 1 - (__CPROVER_old(verif_st->event_count) == 1 ? 1 : 0))	/* [C07] accounting: the event, plus the transport object when the last event goes */
__CPROVER_ensures(IMPLIES(verif_st->event_count == 0, g_rx_on == 0 && g_raw_registered == 0))	/* [C08,C18] transport torn down with the last event */
__CPROVER_ensures(IMPLIES(verif_st->event_count > 0, g_rx_on + g_raw_registered == 1))
__CPROVER_ensures(__CPROVER_old(this->list.prev)->next == __CPROVER_old(this->list.next) ||
		  __CPROVER_old(this->list.next) == &this->list)
__CPROVER_ensures(__CPROVER_old(this->list.next) == &this->list ||
		  (__CPROVER_old(this->list.prev)->next == __CPROVER_old(this->list.next) &&
		   __CPROVER_old(this->list.next)->prev == __CPROVER_old(this->list.prev)))	/* [C01] a pending (or in-progress-batch) event is unlinked: no library list reaches it any more */
__CPROVER_ensures(g_lock_held == 0)	/* [C08] lock balanced */
__CPROVER_ensures(IMPLIES(__CPROVER_old(this->list.next) != &this->list, g_lock_acq == 1))	/* [C08,C14] the unlink happens under the event-list mutex */
;

void h_iv_event_unregister(void)
{
	v_build();
	__CPROVER_assume(verif_in.event_count >= 1 && verif_in.numobjs >= 2);
	v_ev.owner = &v_state;
	if (verif_in.queued == 0) {
		v_ev.list.next = &v_ev.list;
		v_ev.list.prev = &v_ev.list;
	} else if (verif_in.queued == 1) {
		/* only element of the pending list (or of the runner's local batch) */
		v_ev.list.next = &v_n1;
		v_ev.list.prev = &v_n1;
		v_n1.next = &v_ev.list;
		v_n1.prev = &v_ev.list;
	} else {
		v_ev.list.prev = &v_n1;
		v_ev.list.next = &v_n2;
		v_n1.next = &v_ev.list;
		v_n2.prev = &v_ev.list;
		v_n1.prev = &v_n2;
		v_n2.next = &v_n1;
	}
	CALL(iv_event_unregister)(&v_ev);
	CANARY();
}
