/*
 * Bounded whole-tree units for src/iv_avl.c (C16): iv_avl_tree_insert and
 * iv_avl_tree_delete on every AVL tree SHAPE of a given height, every insert
 * position (every gap, every duplicate key -- with a fresh node and with the
 * very node that is already in the tree), every deletable node; afterwards
 * the whole tree is validated (balance, exact heights, parent links, forward
 * and backward traversal with iv_avl_tree_min/next and max/prev give exactly
 * the expected keys in order).
 *
 * Shapes are enumerated by an index: shapes(h) = shapes(h-1)^2 +
 * 2*shapes(h-1)*shapes(h-2); a unit covers shapes SH_LO..SH_HI of height
 * SH_H.  Everything is concrete once the operation index is fixed; the
 * operation is selected by a nondeterministic index, so CBMC explores each
 * (shape, operation) pair as a constant-folded path.  Mode S, bounded.
 */
#include "iv_avl.c"
#define VERIF_NO_TLS
#include "stubs/base.h"

#ifndef SH_H
#define SH_H 2
#endif
#ifndef SH_LO
#define SH_LO 0
#endif
#ifndef SH_HI
#define SH_HI 2
#endif
#define MAXN 32

struct knode {
	struct iv_avl_node	an;
	int			key;
};

struct verif_in_t {
	int	shape;
	int	op;
	int	rev;		/* node allocation order: descendants at higher (0) or lower (1) addresses */
} verif_in;

static struct knode		v_pool[MAXN], v_new;
static int			v_used, v_rev;
/* the i-th allocated node: the pool is filled upwards or downwards, so that code which
 * (wrongly) compares node addresses is exercised with both orders */
#define NODE(i)	(v_rev ? &v_pool[MAXN - 1 - (i)] : &v_pool[i])
static struct iv_avl_tree	v_tree;

static int cmp(const struct iv_avl_node *a, const struct iv_avl_node *b)
{
	int ka = ((struct knode *)(a))->key;
	int kb = ((struct knode *)(b))->key;
	return ka < kb ? -1 : ka > kb ? 1 : 0;
}

static int nshapes(int h)
{
	if (h <= 1)
		return 1;
	if (h == 2)
		return 3;
	if (h == 3)
		return 15;
	return 315;
}

/* build shape number idx of exact height h; returns its root */
static struct iv_avl_node *build(int h, int idx, struct iv_avl_node *parent)
{
	struct knode *k;
	int a, b, hl, hr, il, ir;

	if (h == 0)
		return NULL;
	k = NODE(v_used); v_used++;
	k->an.parent = parent;
	k->an.height = h;
	a = nshapes(h - 1) * nshapes(h - 1);
	b = (h >= 2) ? nshapes(h - 1) * nshapes(h - 2) : 0;
	if (idx < a) {
		hl = h - 1; hr = h - 1;
		il = idx / nshapes(h - 1); ir = idx % nshapes(h - 1);
	} else if (idx < a + b) {
		hl = h - 1; hr = h - 2;
		il = (idx - a) / nshapes(h - 2); ir = (idx - a) % nshapes(h - 2);
	} else {
		hl = h - 2; hr = h - 1;
		il = (idx - a - b) / nshapes(h - 1); ir = (idx - a - b) % nshapes(h - 1);
	}
	k->an.left = build(hl, il, &k->an);
	k->an.right = build(hr, ir, &k->an);
	return &k->an;
}

/* keys 2, 4, 6, ... in in-order */
static int g_next_key;
static void assign_keys(struct iv_avl_node *n)
{
	if (n == NULL)
		return;
	assign_keys(n->left);
	g_next_key += 2;
	((struct knode *)(n))->key = g_next_key;
	assign_keys(n->right);
}

static int g_bad;
static int validate(struct iv_avl_node *n, struct iv_avl_node *parent)
{
	int l, r;

	if (n == NULL)
		return 0;
	if (n->parent != parent)
		g_bad |= 1;
	l = validate(n->left, n);
	r = validate(n->right, n);
	if (r - l > 1 || l - r > 1)
		g_bad |= 2;
	if (n->height != 1 + (l > r ? l : r))
		g_bad |= 4;
	return 1 + (l > r ? l : r);
}

/* forward and backward traversal must give exactly the keys exp[0..n-1] */
static void check_traversal(const int *exp, int n)
{
	struct iv_avl_node *an;
	int i;

	i = 0;
	for (an = iv_avl_tree_min(&v_tree); an != NULL; an = iv_avl_tree_next(an)) {
		__CPROVER_assert(i < n && ((struct knode *)(an))->key == exp[i], "[C16] forward traversal visits exactly the present keys in comparator order");
		i++;
	}
	__CPROVER_assert(i == n, "[C16] forward traversal visits every present node");
	i = n - 1;
	for (an = iv_avl_tree_max(&v_tree); an != NULL; an = iv_avl_tree_prev(an)) {
		__CPROVER_assert(i >= 0 && ((struct knode *)(an))->key == exp[i], "[C16] backward traversal visits exactly the present keys in reverse order");
		i--;
	}
	__CPROVER_assert(i == -1, "[C16] backward traversal visits every present node");
}

static void check_tree(const int *exp, int n)
{
	g_bad = 0;
	validate(v_tree.root, NULL);
	__CPROVER_assert(!(g_bad & 1), "[C16] parent links are consistent");
	__CPROVER_assert(!(g_bad & 2), "[C16] every node is height-balanced (subtree heights differ by at most one)");
	__CPROVER_assert(!(g_bad & 4), "[C16] every recorded height is exact");
	check_traversal(exp, n);
}

/* a node that is inserted may have been in a tree before: its link fields hold anything */
static struct knode v_junk;
static void stale_links(struct iv_avl_node *an)
{
	an->left = &v_junk.an;
	an->right = &v_junk.an;
	an->parent = &v_junk.an;
	an->height = 9;
}

static void one_case(int shape, int op, int rev)
{
	int n, i, j, exp[MAXN + 1];
	struct knode snap[MAXN];

	v_rev = rev;
	v_used = 0;
	g_next_key = 0;
	v_tree.compare = cmp;
	v_tree.root = build(SH_H, shape, NULL);
	assign_keys(v_tree.root);
	n = v_used;		/* keys 2,4,...,2n */

	if (op <= n) {
		/* insert into gap op: key 2*op+1 (between 2*op and 2*op+2) */
		int r;

		v_new.key = 2 * op + 1;
		stale_links(&v_new.an);
		r = iv_avl_tree_insert(&v_tree, &v_new.an);
		__CPROVER_assert(r == 0, "[C16] inserting an absent key succeeds");
		j = 0;
		for (i = 1; i <= n; i++) {
			if (i == op + 1)
				exp[j++] = 2 * op + 1;
			exp[j++] = 2 * i;
		}
		if (op == n)
			exp[j++] = 2 * op + 1;
		check_tree(exp, n + 1);
	} else if (op <= 2 * n) {
		/* duplicate key 2*k with a fresh node: fails and changes nothing */
		int k = op - n, r;

		for (i = 0; i < n; i++)
			snap[i] = *NODE(i);
		v_new.key = 2 * k;
		r = iv_avl_tree_insert(&v_tree, &v_new.an);
		__CPROVER_assert(r == -1, "[C16] inserting a key that is already present fails");
		for (i = 0; i < n; i++)
			__CPROVER_assert(snap[i].an.left == NODE(i)->an.left && snap[i].an.right == NODE(i)->an.right &&
					 snap[i].an.parent == NODE(i)->an.parent && snap[i].an.height == NODE(i)->an.height,
					 "[C16] a failed insert changes nothing");
		for (i = 1; i <= n; i++)
			exp[i - 1] = 2 * i;
		check_tree(exp, n);
	} else if (op <= 3 * n) {
		/* re-insert the very node that is in the tree: fails and changes nothing */
		int k = op - 2 * n - 1, r;

		for (i = 0; i < n; i++)
			snap[i] = *NODE(i);
		r = iv_avl_tree_insert(&v_tree, &NODE(k)->an);
		__CPROVER_assert(r == -1, "[C16] inserting a node whose key is already present fails (the node itself included)");
		for (i = 0; i < n; i++)
			__CPROVER_assert(snap[i].an.left == NODE(i)->an.left && snap[i].an.right == NODE(i)->an.right &&
					 snap[i].an.parent == NODE(i)->an.parent && snap[i].an.height == NODE(i)->an.height,
					 "[C16] a failed insert changes nothing, also when the node passed in is the one in the tree");
		for (i = 1; i <= n; i++)
			exp[i - 1] = 2 * i;
		check_tree(exp, n);
	} else if (op <= 4 * n) {
		/* delete pool node k */
		int k = op - 3 * n - 1, dk;

		dk = NODE(k)->key;
		iv_avl_tree_delete(&v_tree, &NODE(k)->an);
		j = 0;
		for (i = 1; i <= n; i++)
			if (2 * i != dk)
				exp[j++] = 2 * i;
		check_tree(exp, n - 1);
	}
}

void h_avl_tree(void)
{
	int s, op;

	VERIF_IN_LOAD();
	/* each (shape, operation) pair is explored as its own constant-folded path */
	for (s = SH_LO; s <= SH_HI; s++) {
		if (verif_in.shape != s)
			continue;
		for (op = 0; op <= 4 * ((1 << SH_H) - 1); op++) {
			if (verif_in.op == op) {
				if (verif_in.rev == 0)
					one_case(s, op, 0);
				else if (verif_in.rev == 1)
					one_case(s, op, 1);
			}
		}
	}
	CANARY();
}
