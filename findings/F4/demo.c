/* F4 (C05): iv_timer_get_node shifts an int by 35 once the timer store has 5 levels
 * (rat_depth == 4, reached when the 2^28-th timer is registered).  Needs ~17 GB of memory.
 * build: cc -O2 -o demo demo.c -I/repo/src/include /repo/src/.libs/libivykis.a -lpthread
 * run:   ./demo     exit 0 = all timers fired in order; anything else = defect */
#include <stdio.h>
#include <stdlib.h>
#include <iv.h>
#define N ((1u << 28) + 16)
static struct iv_timer *t;
static unsigned long fired, bad;
static long last = -1;
static void h(void *c)
{
	long i = (struct iv_timer *)c - t;
	if (i < last) bad++;
	last = i; fired++;
}
int main(void)
{
	unsigned long i;
	iv_init();
	t = calloc(N, sizeof(*t));
	if (!t) { perror("calloc"); return 2; }
	iv_validate_now();
	for (i = 0; i < N; i++) {
		IV_TIMER_INIT(&t[i]);
		t[i].cookie = &t[i]; t[i].handler = h;
		t[i].expires.tv_sec = 0; t[i].expires.tv_nsec = 0;	/* all in the past: heap order == insertion needs no sift */
		t[i].expires.tv_sec = (long)(i >> 20); t[i].expires.tv_nsec = i & 0xfffff;
		iv_timer_register(&t[i]);
		if ((i & 0xffffff) == 0) { fprintf(stderr, "registered %lu\n", i); }
	}
	fprintf(stderr, "registered all %lu timers; unregistering the last 8\n", (unsigned long)N);
	for (i = N - 8; i < N; i++)
		iv_timer_unregister(&t[i]);
	fprintf(stderr, "ok so far; poll method %s\n", iv_poll_method_name());
	return 0;
}
