/* F2 (C07): iv_event_register() failure leaks an object count, so iv_main() never returns.
 * build: cc -o demo demo.c -I/repo/src/include /repo/src/.libs/libivykis.a -lpthread
 * run:   IV_EXCLUDE_POLL_METHOD="epoll-timerfd epoll" ./demo   (exit 0 = ok, 1 = defect, via alarm) */
#include <stdio.h>
#include <stdlib.h>
#include <unistd.h>
#include <signal.h>
#include <fcntl.h>
#include <sys/resource.h>
#include <iv.h>
#include <iv_event.h>
static void h(void *c) {}
static void on_alarm(int s) { write(2, "iv_main did not return: object count leaked\n", 44); _exit(1); }
int main(void)
{
	struct iv_event ev;
	struct rlimit rl;
	int r;
	iv_init();
	/* exhaust descriptors so that eventfd()/pipe() fail inside iv_event_raw_register */
	getrlimit(RLIMIT_NOFILE, &rl); rl.rlim_cur = 32; setrlimit(RLIMIT_NOFILE, &rl);
	while (open("/dev/null", O_RDONLY) >= 0) ;
	IV_EVENT_INIT(&ev); ev.cookie = NULL; ev.handler = h;
	r = iv_event_register(&ev);
	printf("iv_event_register returned %d (method %s)\n", r, iv_poll_method_name());
	if (r == 0) { printf("registration unexpectedly succeeded; cannot demonstrate\n"); return 2; }
	signal(SIGALRM, on_alarm); alarm(2);
	iv_main();		/* nothing is registered: must return at once */
	printf("iv_main returned\n");
	return 0;
}
