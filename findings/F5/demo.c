/* F5 (C18/C20): iv_inotify_register() does not initialise this->term, so iv_inotify_unregister()
 * of an instance that does not live in zeroed memory writes through a garbage pointer.
 * build: cc -g -o demo demo.c -I/repo/src/include /repo/src/.libs/libivykis.a -lpthread
 * run:   ./demo   (exit 0 = ok; SIGSEGV / non-zero = defect) */
#include <stdio.h>
#include <stdlib.h>
#include <string.h>
#include <iv.h>
#include <iv_inotify.h>
int main(void)
{
	struct iv_inotify *in;
	iv_init();
	in = malloc(sizeof(*in));
	memset(in, 0x5a, sizeof(*in));		/* heap memory is not zeroed in general */
	IV_INOTIFY_INIT(in);
	if (iv_inotify_register(in) < 0) { perror("iv_inotify_register"); return 2; }
	iv_inotify_unregister(in);		/* outside any handler */
	free(in);
	iv_deinit();
	printf("ok\n");
	return 0;
}
