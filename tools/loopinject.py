#!/usr/bin/env python3
"""
loopinject.py — insert CBMC loop-contract clauses into a scratch copy of one
real source file (DESIGN 2.1: --loop-contracts-file is unusable in cbmc 6.11).

inject(text, specs) -> new text
  specs: list of {"function": f, "loop": k (0-based ordinal of the loop
          statement inside f, in source order), "nloops": expected number of loops in f,
          "clauses": "text of __CPROVER_assigns/...invariant/...decreases lines"}

Rules (violations raise InjectError => the unit is *inconclusive*, never a
violation):
  - the function must exist exactly once at file scope, and contain exactly nloops loops
  - removing the inserted lines gives back the original text byte for byte
What is dropped: nothing.  What is added: the clause lines only, placed
  for/while: between the closing ')' of the loop header and the loop body
  do-while:  between 'do' and the loop body
"""
import re


class InjectError(Exception):
    pass


def _mask(text):
    """Return text with comments, string and char literals replaced by spaces
    (same length), so that brace/paren matching is reliable."""
    out = list(text)
    i, n = 0, len(text)
    while i < n:
        c = text[i]
        if text.startswith('/*', i):
            j = text.find('*/', i + 2)
            j = n if j < 0 else j + 2
            for k in range(i, j):
                if out[k] != '\n':
                    out[k] = ' '
            i = j
        elif text.startswith('//', i):
            j = text.find('\n', i)
            j = n if j < 0 else j
            for k in range(i, j):
                out[k] = ' '
            i = j
        elif c == '"' or c == "'":
            q = c
            j = i + 1
            while j < n and text[j] != q:
                if text[j] == '\\':
                    j += 1
                j += 1
            for k in range(i + 1, min(j, n)):
                if out[k] != '\n':
                    out[k] = ' '
            i = j + 1
        else:
            i += 1
    return ''.join(out)


def _match(masked, i, open_c, close_c):
    """masked[i] == open_c; return index of the matching close_c."""
    depth = 0
    n = len(masked)
    while i < n:
        if masked[i] == open_c:
            depth += 1
        elif masked[i] == close_c:
            depth -= 1
            if depth == 0:
                return i
        i += 1
    raise InjectError('unbalanced %s' % open_c)


def find_function(masked, name):
    """Return (body_start, body_end) indices of '{' and '}' of the definition
    of function `name` at file scope."""
    hits = []
    for m in re.finditer(r'\b%s\s*\(' % re.escape(name), masked):
        # must be at brace depth 0
        depth = masked.count('{', 0, m.start()) - masked.count('}', 0, m.start())
        if depth != 0:
            continue
        close = _match(masked, m.end() - 1, '(', ')')
        j = close + 1
        while j < len(masked) and masked[j] in ' \t\n':
            j += 1
        if j < len(masked) and masked[j] == '{':
            hits.append((j, _match(masked, j, '{', '}')))
    if len(hits) != 1:
        raise InjectError('function %s: %d definitions found' % (name, len(hits)))
    return hits[0]


def find_loops(masked, start, end):
    """Return list of (kind, insert_pos) for each loop statement in
    masked[start:end], in source order.  A `while` that closes a do-while is
    not counted."""
    loops = []
    do_stack = []   # positions where a 'do' body ends are detected lazily
    pending_do_ends = set()
    for m in re.finditer(r'\b(for|while|do)\b', masked[start:end]):
        pos = start + m.start()
        kw = m.group(1)
        if kw == 'do':
            j = pos + 2
            loops.append(('do', j))
            # find end of the body to recognise the trailing while
            k = j
            while masked[k] in ' \t\n':
                k += 1
            if masked[k] == '{':
                body_end = _match(masked, k, '{', '}')
            else:
                body_end = masked.index(';', k)
            k = body_end + 1
            while masked[k] in ' \t\n':
                k += 1
            pending_do_ends.add(k)
        else:
            if kw == 'while' and pos in pending_do_ends:
                continue
            j = pos + len(kw)
            while masked[j] in ' \t\n':
                j += 1
            if masked[j] != '(':
                raise InjectError('loop header without ( at %d' % pos)
            close = _match(masked, j, '(', ')')
            loops.append((kw, close + 1))
    return loops


def inject(text, specs):
    masked = _mask(text)
    inserts = []
    for sp in specs:
        bs, be = find_function(masked, sp['function'])
        loops = find_loops(masked, bs, be)
        if 'nloops' in sp and len(loops) != sp['nloops']:
            raise InjectError('function %s: expected %d loops, found %d'
                              % (sp['function'], sp['nloops'], len(loops)))
        k = sp['loop']
        if k >= len(loops):
            raise InjectError('function %s has no loop #%d' % (sp['function'], k))
        clauses = sp['clauses']
        if isinstance(clauses, list):
            clauses = '\n'.join(clauses)
        inserts.append((loops[k][1], '\n' + clauses.strip('\n') + '\n'))
    inserts.sort()
    out = []
    last = 0
    for pos, txt in inserts:
        out.append(text[last:pos])
        out.append('/*VERIF-LOOP-BEGIN*/' + txt + '/*VERIF-LOOP-END*/')
        last = pos
    out.append(text[last:])
    new = ''.join(out)
    # round trip: deleting the inserted text must give the original back
    back = re.sub(r'/\*VERIF-LOOP-BEGIN\*/.*?/\*VERIF-LOOP-END\*/', '', new, flags=re.S)
    if back != text:
        raise InjectError('round-trip check failed')
    return new


if __name__ == '__main__':
    import sys, json
    txt = open(sys.argv[1]).read()
    specs = json.load(open(sys.argv[2]))
    sys.stdout.write(inject(txt, specs))
