#!/usr/bin/env python3
"""Apply every seeded change in /verif/seeded to /repo (one at a time, undone straight afterwards),
run the quick check of the property it targets, and record what caught it in meta.json."""
import json, os, subprocess, sys, re
V = '/verif'
args = sys.argv[1:]
scratch = '--scratch' in args          # work on a scratch copy of /repo (when /repo must not be touched)
only = [a for a in args if a != '--scratch']
REPO = '/repo'
if scratch:
    REPO = '/tmp/seedrun_repo'
    subprocess.run(['rm', '-rf', REPO]); subprocess.run(['cp', '-a', '/repo', REPO])
    os.environ['VERIF_REPO'] = REPO
rows = []
if subprocess.run(['git', '-C', REPO, 'status', '--porcelain', '--untracked-files=no'], capture_output=True, text=True).stdout.strip():
    sys.exit('/repo has uncommitted changes')
for d in sorted(os.listdir(V + '/seeded')):
    sd = os.path.join(V, 'seeded', d)
    mp = os.path.join(sd, 'meta.json')
    if not os.path.exists(mp) or (only and d not in only and d.split('_')[0] not in only):
        continue
    meta = json.load(open(mp))
    pid = meta['property']
    if subprocess.run(['git', '-C', REPO, 'apply', os.path.join(sd, 'patch.diff')]).returncode:
        rows.append((d, pid, 'patch does not apply', [])); continue
    try:
        r = subprocess.run(['python3', V + '/verif.py', 'check', pid, '--tier', 'quick'], capture_output=True, text=True, cwd=V)
    finally:
        subprocess.run(['git', '-C', REPO, 'checkout', '--', '.'])
    obs = re.findall(r'failed obligation: unit=(\S+) (\S+?): (.*)', r.stdout)
    viol = [l for l in r.stdout.split('\n') if l.startswith('VIOLATION')]
    native = sum(1 for l in viol if 'no-failing-input-found' not in l)
    meta['detected_by'] = dict(check='python3 verif.py check %s --tier quick' % pid, exit_code=r.returncode,
                               units=sorted(set(o[0] for o in obs)),
                               obligations=[dict(unit=o[0], obligation=o[1], text=o[2][:200]) for o in obs[:4]],
                               violation_lines=len(viol), replayed_natively=native)
    json.dump(meta, open(mp, 'w'), indent=1)
    rows.append((d, pid, 'exit %d' % r.returncode, sorted(set(o[0] for o in obs)), native, len(viol)))
    print(rows[-1], flush=True)
old = {}
rp = V + '/seeded/RESULTS.json'
if os.path.exists(rp):
    for r in json.load(open(rp)):
        old[r[0]] = r
for r in rows:
    old[r[0]] = list(r)
json.dump([old[k] for k in sorted(old)], open(rp, 'w'), indent=1)

if scratch:
    subprocess.run(['rm', '-rf', REPO])
