#!/usr/bin/env python3
"""MANIFEST.setup_cmd: nothing needs building (python3 + cbmc tool chain are pre-installed);
verify the tools are present and the repository sources can be found."""
import shutil, sys, os
missing = [t for t in ('cbmc', 'goto-cc', 'goto-instrument', 'clang') if not shutil.which(t)]
if missing:
    print('missing tools:', missing); sys.exit(1)
repo = os.environ.get('VERIF_REPO', '/repo')
if not os.path.exists(os.path.join(repo, 'src', 'iv_task.c')):
    print('repository sources not found under', repo); sys.exit(1)
os.makedirs(os.path.join(os.path.dirname(os.path.dirname(os.path.abspath(__file__))), 'evidence'), exist_ok=True)
print('setup ok')
