#!/usr/bin/env python3
"""Regenerate the machine-written tables of DESIGN.md (between the marker comments)."""
import json, os, re, sys
V = os.path.dirname(os.path.dirname(os.path.abspath(__file__)))
sys.path.insert(0, V)
import verif
units = verif.load_units()
props = [json.loads(l)['id'] for l in open(V + '/properties.jsonl') if l.strip()]

def table_units():
    out = ['| property | unbounded units (tier) | bounded stand-ins (bound) |', '|---|---|---|']
    for p in props:
        us = [u for u in units if p in u['props']]
        if not us:
            out.append('| %s | — | — |' % p); continue
        pr = [u for u in us if u['kind'] == 'proved']
        bd = [u for u in us if u['kind'] != 'proved']
        def fmt(lst):
            q = [u['name'] for u in lst if u['tier'] == 'quick']
            t = [u['name'] for u in lst if u['tier'] != 'quick']
            s = ', '.join(q[:40]) + (' … (%d)' % len(q) if len(q) > 40 else '')
            if t:
                s += ' ; thorough only: ' + ', '.join(t[:12]) + (' … (%d)' % len(t) if len(t) > 12 else '')
            return s or '—'
        out.append('| %s | %s | %s |' % (p, fmt(pr), fmt(bd)))
    return '\n'.join(out)

def table_seeds():
    out = ['| seeded change | property | caught by (units) | failing obligation (first) | native replay |', '|---|---|---|---|---|']
    sd = V + '/seeded'
    for d in sorted(os.listdir(sd)):
        mp = os.path.join(sd, d, 'meta.json')
        if not os.path.exists(mp):
            continue
        m = json.load(open(mp))
        db = m.get('detected_by') or {}
        ob = (db.get('obligations') or [{}])[0]
        out.append('| %s | %s | %s | %s | %s |' % (d, m['property'], ', '.join(db.get('units', [])) or ('UNDECIDED (exit 2: unit timed out)' if db.get('exit_code') == 2 else 'NOT CAUGHT'),
                   (ob.get('text', '')[:110]).replace('|', '/'), '%s of %s' % (db.get('replayed_natively', 0), db.get('violation_lines', 0))))
    return '\n'.join(out)

p = V + '/DESIGN.md'
s = open(p).read()
for name, fn in (('UNITS', table_units), ('SEEDS', table_seeds)):
    s = re.sub(r'<!-- %s-BEGIN -->.*?<!-- %s-END -->' % (name, name), '<!-- %s-BEGIN -->\n%s\n<!-- %s-END -->' % (name, fn(), name), s, flags=re.S)
open(p, 'w').write(s)
print('tables regenerated')
