#!/usr/bin/env python3
"""
cgen.py — turn a proof-unit file into a natively compilable replay program.

  * bodiless contract declarations  `T f__contract(params) __CPROVER_requires(..)
    __CPROVER_assigns(..) __CPROVER_ensures(..) ;`  are removed from the text;
  * for the contract under enforcement a wrapper  f__checked(params)  is
    generated that evaluates requires (exit 77 if false: the input is outside
    the contract), snapshots every __CPROVER_old(e), calls the REAL f, and
    evaluates every ensures clause as C, reporting `OBLIGATION FAILED: ...`;
  * verif_in_load() is generated from the counterexample values of verif_in.

Contracts that use primitives with no native meaning (__CPROVER_is_fresh,
forall/exists, pointer-object primitives) cannot be replayed: Unsupported is raised
and the driver reports the violation with `no-failing-input-found`.
"""
import re
import sys
import os
sys.path.insert(0, os.path.dirname(os.path.abspath(__file__)))
from loopinject import _mask, _match


class Unsupported(Exception):
    pass


CLAUSE_KW = ('__CPROVER_requires', '__CPROVER_ensures', '__CPROVER_assigns',
             '__CPROVER_frees')


def find_contracts(text):
    """Yield dicts: name, ret, params, clauses[(kind, text, line)], start, end."""
    masked = _mask(text)
    res = []
    for m in re.finditer(r'\b(\w+__contract)\s*\(', masked):
        depth = masked.count('{', 0, m.start()) - masked.count('}', 0, m.start())
        if depth != 0:
            continue
        # return type: text between previous ';' or '}' or start-of-line gap and the name
        k = m.start()
        j = k
        while j > 0 and masked[j - 1] not in ';}':
            j -= 1
        # skip preprocessor lines and blanks at the start of the segment
        seg_start = j
        seg = masked[seg_start:k]
        # drop leading lines that are preprocessor directives or blank
        lines = seg.split('\n')
        off = 0
        cont = False
        while lines and (lines[0].strip() == '' or lines[0].lstrip().startswith('#') or cont):
            # NB: masked text keeps backslashes; a directive continues while lines end in one
            cont = text[seg_start + off:seg_start + off + len(lines[0])].rstrip().endswith('\\')
            off += len(lines[0]) + 1
            lines.pop(0)
        ret = seg[off:].strip()
        start = seg_start + off
        pclose = _match(masked, m.end() - 1, '(', ')')
        params = text[m.end():pclose]
        i = pclose + 1
        clauses = []
        while True:
            while i < len(masked) and masked[i] in ' \t\n':
                i += 1
            mm = re.match(r'(__CPROVER_\w+)\s*\(', masked[i:])
            if not mm:
                break
            kw = mm.group(1)
            op = i + mm.end() - 1
            cl = _match(masked, op, '(', ')')
            clauses.append((kw, text[op + 1:cl], text.count('\n', 0, i) + 1))
            i = cl + 1
        if i >= len(masked) or masked[i] != ';':
            continue        # not a bodiless declaration
        res.append(dict(name=m.group(1), ret=ret, params=params, clauses=clauses,
                        start=start, end=i + 1))
    return res


def param_names(params):
    params = params.strip()
    if params in ('', 'void'):
        return []
    names = []
    depth = 0
    cur = ''
    parts = []
    for c in params:
        if c == '(':
            depth += 1
        elif c == ')':
            depth -= 1
        if c == ',' and depth == 0:
            parts.append(cur)
            cur = ''
        else:
            cur += c
    parts.append(cur)
    for p in parts:
        m = re.search(r'\(\s*\*\s*(\w+)\s*\)', p)
        if m:
            names.append(m.group(1))
            continue
        m = re.search(r'(\w+)\s*(\[[^\]]*\])?\s*$', p)
        names.append(m.group(1))
    return names


def _replace_olds(expr, olds):
    """Replace each __CPROVER_old(e) in expr by a snapshot variable."""
    while True:
        m = re.search(r'__CPROVER_old\s*\(', expr)
        if not m:
            return expr
        op = m.end() - 1
        cl = _match(expr, op, '(', ')')
        inner = expr[op + 1:cl]
        if inner not in olds:
            olds[inner] = '__old%d' % len(olds)
        expr = expr[:m.start()] + '(' + olds[inner] + ')' + expr[cl + 1:]


BAD = ('__CPROVER_is_fresh', '__CPROVER_forall', '__CPROVER_exists',
       '__CPROVER_same_object', '__CPROVER_POINTER_OBJECT', '__CPROVER_POINTER_OFFSET',
       '__CPROVER_r_ok', '__CPROVER_w_ok', '__CPROVER_rw_ok', '__CPROVER_pointer_in_range',
       '__CPROVER_OBJECT_SIZE')


def gen_checked(c, fname):
    names = param_names(c['params'])
    void = c['ret'].replace('static', '').strip() == 'void'
    olds = {}
    req, ens = [], []
    for kind, txt, line in c['clauses']:
        for b in BAD:
            if b in txt:
                raise Unsupported('%s in contract clause at line %d' % (b, line))
        if kind == '__CPROVER_requires':
            req.append((txt, line))
        elif kind == '__CPROVER_ensures':
            ens.append((_replace_olds(txt, olds), txt, line))
    out = []
    out.append('/* generated by cgen.py from %s */' % c['name'])
    out.append('%s %s__checked(%s)\n{' % (c['ret'], fname, c['params']))
    for txt, line in req:
        msg = ' '.join(txt.split()).replace('\\', '\\\\').replace('"', '\\"')
        out.append('\tif (!(%s)) { verif_msg("REQUIRES-FALSE: ", "%s"); exit(77); }' % (txt, msg[:300]))
    # snapshots; an old() whose evaluation faults is left zero (CBMC guards them likewise)
    for inner, var in olds.items():
        out.append('\t__typeof__(%s) %s; memset(&%s, 0, sizeof(%s));' % (inner, var, var, var))
    if olds:
        out.append('\tverif_old_begin();')
        for inner, var in olds.items():
            out.append('\tif (!__sigsetjmp(verif_old_jb, 1)) { %s = (%s); }' % (var, inner))
        out.append('\tverif_old_end();')
    call = '%s(%s)' % (fname, ', '.join(names))
    if void:
        out.append('\t%s;' % call)
    else:
        out.append('\t__typeof__(%s) __ret = %s;' % (call, call))
    for cooked, raw, line in ens:
        cooked = cooked.replace('__CPROVER_return_value', '__ret')
        msg = ' '.join(raw.split()).replace('\\', '\\\\').replace('"', '\\"')
        out.append('\tif (!(%s)) { verif_msg("OBLIGATION FAILED: ensures ", "%s"); verif_failed = 1; }'
                   % (cooked, msg[:400]))
    if not void:
        out.append('\treturn __ret;')
    out.append('}')
    return '\n'.join(out)


def c_value(v):
    """CBMC json value -> list of (suffix, literal)."""
    if v is None:
        return []
    name = v.get('name')
    if name == 'struct':
        res = []
        for mem in v.get('members', []):
            for suf, lit in c_value(mem.get('value')):
                res.append(('.' + mem['name'] + suf, lit))
        return res
    if name == 'array':
        res = []
        for el in v.get('elements', []):
            for suf, lit in c_value(el.get('value')):
                res.append(('[%s]' % el['index'] + suf, lit))
        return res
    if name == 'union':
        return []
    if name in ('integer', 'boolean', 'float'):
        d = v.get('data')
        if d is None:
            return []
        d = str(d)
        if d in ('TRUE', 'true'):
            d = '1'
        if d in ('FALSE', 'false'):
            d = '0'
        d = re.sub(r'[uUlL]+$', '', d)
        if re.fullmatch(r'-?\d+', d):
            if int(d) == -9223372036854775808:
                return [('', '(-9223372036854775807LL-1)')]
            if int(d) < 0:
                return [('', '(%sLL)' % d)]
            return [('', '%sULL' % d)]
        return [('', d)]
    return []          # pointers etc: never part of verif_in by construction


def gen_loader(values):
    out = ['void verif_in_load(void)\n{']
    for lhs, lit in values:
        out.append('\t%s = (__typeof__(%s))%s;' % (lhs, lhs, lit))
    out.append('}')
    return '\n'.join(out)


def generate(unit_text, entry, enforce_fn, enforce_contract, values):
    """unit_text: the unit after `clang -E -DVERIF_NATIVE` (so that macros inside
    contract clauses are expanded).  Return the native program text."""
    cs = find_contracts(unit_text)
    target = None
    for c in cs:
        if c['name'] == enforce_contract:
            target = c
    text = unit_text
    checked = ''
    if enforce_contract:
        if target is None:
            raise Unsupported('contract %s not found' % enforce_contract)
        checked = gen_checked(target, enforce_fn)
    # remove contract declarations back to front; put generated code at the target's place
    for c in sorted(cs, key=lambda c: -c['start']):
        repl = ''
        if target is not None and c is target:
            repl = checked + '\n'
        # keep line structure roughly: replace by blank lines
        nl = text.count('\n', c['start'], c['end'])
        text = text[:c['start']] + repl + '\n' * nl + text[c['end']:]
    prog = []
    prog.append('int verif_failed;')
    prog.append(text)
    prog.append(gen_loader(values))
    prog.append('int main(void) { %s(); if (verif_failed) { verif_msg("REPLAY: ", "obligation failed"); return 1; } '
                'verif_msg("REPLAY: ", "no obligation failed"); return 0; }' % entry)
    return '\n'.join(prog)
