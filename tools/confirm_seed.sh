#!/bin/bash
# confirm_seed.sh <dir-with-patch.diff-and-demo.c> : confirm a seeded change in a scratch copy of /repo
#   original: demo passes; changed: library builds, `make check` 11/11, demo fails.
set -u
D=$(readlink -f "$1"); W=/tmp/cs_$$
rm -rf $W; cp -a /repo $W; git -C $W checkout -q -- . 
build_demo() { gcc -O1 -g -w -I$W/src/include -I$W/src -o $W/demo_bin $D/demo.c $W/src/.libs/libivykis.a ${EXTRA_LD:-} -lpthread -ldl 2>&1 | tail -3; }
run_demo() { ( cd $D; timeout 90 $W/demo_bin >$W/demo.out 2>&1 ); echo $?; }
( cd $W && make -j8 >/dev/null 2>&1 )
build_demo; r0=$(run_demo)
if ! git -C $W apply $D/patch.diff 2>$W/apply.err; then echo "RESULT $(basename $D): patch does not apply: $(cat $W/apply.err | head -2)"; rm -rf $W; exit 2; fi
( cd $W && make -j8 >$W/make.out 2>&1 ) || { echo "RESULT $(basename $D): build failed"; tail -5 $W/make.out; rm -rf $W; exit 2; }
chk=$( cd $W && make check 2>&1 | grep -E "^# (PASS|FAIL):" | tr -s ' ' | tr '\n' ' ')
build_demo; r1=$(run_demo)
echo "RESULT $(basename $D): original demo exit=$r0, make check [$chk], changed demo exit=$r1 :: $(tail -2 $W/demo.out | tr '\n' '|' | cut -c1-200)"
rm -rf $W
