#!/usr/bin/env python3
"""Regenerate /verif/MANIFEST.json from units/*.json and claims.json.
A property is claimed iff claims.json has an entry for it AND at least one unit serves it."""
import json
import os
import sys

VERIF = os.path.dirname(os.path.dirname(os.path.abspath(__file__)))
sys.path.insert(0, VERIF)
import verif  # noqa

claims = json.load(open(os.path.join(VERIF, 'claims.json')))
units = verif.load_units()
props = [json.loads(l)['id'] for l in open(os.path.join(VERIF, 'properties.jsonl')) if l.strip()]

checks = []
na = []
for pid in props:
    us = [u for u in units if pid in u['props']]
    c = claims.get(pid)
    if c and c.get('claim') and us:
        proved = [u for u in us if u['kind'] == 'proved']
        checks.append({
            'property_id': pid,
            'quick_cmd': 'python3 verif.py check %s --tier quick' % pid,
            'thorough_cmd': 'python3 verif.py check %s --tier thorough' % pid,
            'evidence_file': 'evidence/%s.json' % pid,
            'replay_cmd_template': 'python3 verif.py replay {path}',
            'engine': 'cbmc-contracts',
            'level_claimed': {
                'category': 'proof' if proved else 'model_checking',
                'text': c['text'],
                'design_ref': c.get('design_ref', 'DESIGN.md section 5, ' + pid),
            },
            'level_note': c['note'],
            'technique': c.get('technique', 'CBMC code contracts (goto-instrument --dfcc) on the real functions'),
        })
    else:
        reason = (c or {}).get('na_reason') or 'no check is registered for this property yet'
        na.append({'property_id': pid, 'reason': reason})

man = {
    'version': 1,
    'setup_cmd': 'python3 tools/setup_check.py',
    'hooks': {
        'guard': 'IVYKIS_VERIF',
        'enable': 'no source hooks are needed: contracts are out of line (units #include the real src/*.c); '
                  'checks compile with -DIVYKIS_VERIF, which no file in /repo tests',
        'baseline_off_cmd': 'make -C /repo check',
        'source_commits': [],
        'add_only': True,
    },
    'engines': [{
        'name': 'cbmc-contracts',
        'path': 'verif.py',
        'serves_properties': [c['property_id'] for c in checks],
        'kind_free_text': 'contract-based deductive verification: out-of-line CBMC function contracts on the real '
                          'C functions, enforced per function with goto-instrument --dfcc, callees replaced by '
                          'their contracts, loop contracts injected mechanically; bounded (unwind) stand-ins '
                          'are labelled bounded',
    }],
    'checks': checks,
    'not_applicable': na,
    'notes': 'See DESIGN.md.  Exit 2 of a check means inconclusive (time-out / tool error / vacuity guard), never a violation.',
}
json.dump(man, open(os.path.join(VERIF, 'MANIFEST.json'), 'w'), indent=1)
print('claimed:', [c['property_id'] for c in checks])
print('not applicable:', [n['property_id'] for n in na])
