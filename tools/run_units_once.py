#!/usr/bin/env python3
"""Run each selected unit exactly once (no per-property repetition, no evidence written).
   usage: run_units_once.py [--thorough-only] [--jobs N] [--src substr]... [unit names...]
   Used to re-validate the thorough tier after harness edits without paying for every property."""
import os, sys, time
from concurrent.futures import ThreadPoolExecutor
VERIF = os.path.dirname(os.path.dirname(os.path.abspath(__file__)))
sys.path.insert(0, VERIF)
import verif  # noqa

args = sys.argv[1:]
jobs = 6
thorough_only = False
srcs = []
names = []
i = 0
while i < len(args):
    a = args[i]
    if a == '--jobs':
        jobs = int(args[i + 1]); i += 2; continue
    if a == '--thorough-only':
        thorough_only = True; i += 1; continue
    if a == '--src':
        srcs.append(args[i + 1]); i += 2; continue
    names.append(a); i += 1
units = verif.load_units()
sel = []
for u in units:
    if thorough_only and u.get('tier') != 'thorough':
        continue
    if srcs and not any(s in u['src'] for s in srcs):
        continue
    if names and u['name'] not in names:
        continue
    sel.append(u)
sel.sort(key=lambda u: -u['timeout'])
t0 = time.time()
tier = 'thorough' if thorough_only else 'quick'
bad = 0
def one(u):
    r = verif.run_unit(u, tier)
    return u, r
with ThreadPoolExecutor(max_workers=jobs) as ex:
    for u, r in ex.map(one, sel):
        st = r['status']
        if st != 'discharged':
            bad += 1
        print('%-34s %-12s %6.0fs %s' % (u['name'], st, r['t_cbmc'], (r['reason'] or '')[:160] if st != 'discharged' else ''), flush=True)
        for ob in r['failures'][:3]:
            print('    FAILED %s: %s' % (ob['id'], (ob.get('text') or ob['description'])[:160]), flush=True)
print('units=%d not-discharged=%d wall=%.0fs' % (len(sel), bad, time.time() - t0))
sys.exit(1 if bad else 0)
