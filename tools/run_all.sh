#!/bin/bash
# run every claimed check (quick tier by default) on the current tree; print one line per property
T=${1:-quick}
for p in $(python3 -c "import json;print(' '.join(c['property_id'] for c in json.load(open('/verif/MANIFEST.json'))['checks']))"); do
  s=$(date +%s); python3 /verif/verif.py check $p --tier $T > /tmp/all_$p.out 2>&1; rc=$?; e=$(date +%s)
  echo "$p rc=$rc $((e-s))s $(tail -1 /tmp/all_$p.out | cut -c1-120)"
  grep -E "VIOLATION|inconclusive" /tmp/all_$p.out | cut -c1-220 | head -4
done
