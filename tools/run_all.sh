#!/bin/bash
# run every claimed check (quick tier by default) on the current tree; print one line per property
T=${1:-quick}
D=$(cd "$(dirname "$0")/.." && pwd)
cd "$D"
for p in $(python3 -c "import json;print(' '.join(c['property_id'] for c in json.load(open('MANIFEST.json'))['checks']))"); do
  s=$(date +%s); python3 verif.py check $p --tier $T ${JOBS:+--jobs $JOBS} > /tmp/all_${T}_$p.out 2>&1; rc=$?; e=$(date +%s)
  echo "$p rc=$rc $((e-s))s $(tail -1 /tmp/all_${T}_$p.out | cut -c1-120)"
  grep -E "VIOLATION|inconclusive:" /tmp/all_${T}_$p.out | cut -c1-220 | head -6
done
