#!/bin/bash
# run_seed.sh <seed-dir> <property>... : apply the seeded change to /repo, run the quick checks, undo it.
D=$(readlink -f "$1"); shift
cd /repo || exit 2
if [ -n "$(git status --porcelain --untracked-files=no)" ]; then echo "/repo has uncommitted changes"; exit 2; fi
git apply "$D/patch.diff" || exit 2
trap 'git -C /repo checkout -- .' EXIT
cd /verif
for p in "$@"; do
  python3 verif.py check $p --tier ${TIER:-quick} > /tmp/run_seed_$p.out 2>&1; rc=$?
  echo "== $(basename $D) $p: exit $rc"; grep -E "VIOLATION|failed obligation|inconclusive" /tmp/run_seed_$p.out | cut -c1-260 | head -6
done
