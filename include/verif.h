/*
 * verif.h — prelude shared by every proof unit.
 *
 * A unit is a wrapper translation unit that #includes the real source file
 * from $REPO/src verbatim, then this prelude's companions (stubs, contracts),
 * then defines one or more harness entry points h_<name>().
 *
 * The same unit text is consumed twice:
 *   - by goto-cc / goto-instrument --dfcc / cbmc  (VERIF_NATIVE undefined)
 *   - by clang -fsanitize=address,undefined        (VERIF_NATIVE defined)
 *     to replay a counterexample against the real code.  For the native build
 *     tools/cgen.py removes the bodiless contract declarations and generates
 *     f__checked() wrappers that evaluate the requires/ensures clauses as C.
 */
#ifndef VERIF_H
#define VERIF_H

#include <stdint.h>
#include <stddef.h>
#include <limits.h>
#include <errno.h>

#ifdef VERIF_NATIVE

#include <stdio.h>
#include <stdlib.h>
#include <string.h>
#include <signal.h>
#include <setjmp.h>

extern int verif_failed;
/* helpers for generated f__checked() wrappers (tools/cgen.py); the generated
 * text is inserted after preprocessing and therefore cannot use macros */
static sigjmp_buf verif_old_jb;
static struct sigaction verif_old_o1, verif_old_o2;
static void verif_old_segv(int s) { siglongjmp(verif_old_jb, 1); }
static void verif_old_begin(void)
{
	struct sigaction sa;
	memset(&sa, 0, sizeof(sa));
	sa.sa_handler = verif_old_segv;
	sigemptyset(&sa.sa_mask);
	sigaction(SIGSEGV, &sa, &verif_old_o1);
	sigaction(SIGBUS, &sa, &verif_old_o2);
}
static void verif_old_end(void)
{
	sigaction(SIGSEGV, &verif_old_o1, NULL);
	sigaction(SIGBUS, &verif_old_o2, NULL);
}
static void verif_msg(const char *a, const char *b) { fprintf(stderr, "%s%s\n", a, b); }
#define __CPROVER_assume(c) do { if (!(c)) { \
	fprintf(stderr, "ASSUME-FALSE %s:%d: %s\n", __FILE__, __LINE__, #c); \
	exit(77); } } while (0)
#define __CPROVER_assert(c, msg) do { if (!(c)) { \
	fprintf(stderr, "OBLIGATION FAILED: %s (%s:%d)\n", msg, __FILE__, __LINE__); \
	verif_failed = 1; } } while (0)
#define __CPROVER_bool _Bool
#define STUB(name)	__wrap_##name
#define CALL(f)		f##__checked
#define CANARY()	do { } while (0)
#define VERIF_IN_LOAD()	verif_in_load()
void verif_in_load(void);
#define VERIF_COVER(c)	do { } while (0)

#else

#define STUB(name)	name
#define CALL(f)		f
#define CANARY()	__CPROVER_assert(0, "canary")
/* an uninitialised local is nondeterministic for CBMC */
#define VERIF_IN_LOAD()	do { struct verif_in_t __nd; verif_in = __nd; } while (0)
#define VERIF_COVER(c)	__CPROVER_cover(c)

#endif

/* local list link invariant */
#define WF_NODE(n)	((n)->next->prev == (n) && (n)->prev->next == (n))

#define IMPLIES(a, b)	(!(a) || (b))
#define IFF(a, b)	(!!(a) == !!(b))

#endif
