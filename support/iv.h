/*
 * ivykis, an event handling library
 * Copyright (C) 2002, 2003, 2009, 2012 Lennert Buytenhek
 * Dedicated to Marija Kulikova.
 *
 * This library is free software; you can redistribute it and/or modify
 * it under the terms of the GNU Lesser General Public License version
 * 2.1 as published by the Free Software Foundation.
 *
 * This library is distributed in the hope that it will be useful,
 * but WITHOUT ANY WARRANTY; without even the implied warranty of
 * MERCHANTABILITY or FITNESS FOR A PARTICULAR PURPOSE.  See the
 * GNU Lesser General Public License version 2.1 for more details.
 *
 * You should have received a copy of the GNU Lesser General Public
 * License version 2.1 along with this library; if not, write to the
 * Free Software Foundation, Inc., 51 Franklin Street - Fifth Floor,
 * Boston, MA 02110-1301, USA.
 */

#ifndef __IV_H
#define __IV_H

#ifndef _WIN32
#include <errno.h>
#include <sys/types.h>
#include <sys/socket.h>
#include <sys/time.h>
#include <unistd.h>
#else
#include <sys/time.h>
#include <windows.h>
#endif

#ifdef __cplusplus
extern "C" {
#endif

/*
 * Library initialisation, main loop.
 */
void iv_init(void);
int iv_inited(void);
void iv_main(void);
void iv_quit(void);
void iv_deinit(void);
const char *iv_poll_method_name(void);
void iv_fatal(const char *fmt, ...) __attribute__((noreturn))
	__attribute__((format(printf, 1, 2)));
void iv_set_fatal_msg_handler(void (*handler)(const char *msg));
unsigned long iv_get_thread_id(void);


/*
 * Time handling.
 */
const struct timespec *__iv_now_location_valid(void);

#define iv_now			(*__iv_now_location_valid())
#define iv_validate_now()

void iv_invalidate_now(void);


#ifndef _WIN32
/*
 * File descriptor handling.
 */
struct iv_fd {
	int	fd;
	void	*cookie;
	void	(*handler_in)(void *);
	void	(*handler_out)(void *);
	void	(*handler_err)(void *);
	void	*pad[11];
};

void IV_FD_INIT(struct iv_fd *);
void iv_fd_register(struct iv_fd *);
int iv_fd_register_try(struct iv_fd *);
void iv_fd_unregister(struct iv_fd *);
int iv_fd_registered(const struct iv_fd *);
void iv_fd_set_handler_in(struct iv_fd *, void (*)(void *));
void iv_fd_set_handler_out(struct iv_fd *, void (*)(void *));
void iv_fd_set_handler_err(struct iv_fd *, void (*)(void *));
#endif


#ifdef _WIN32
/*
 * Handle handling.
 */
struct iv_handle {
	HANDLE	handle;
	void	*cookie;
	void	(*handler)(void *);
	void	*pad[13];
};

void IV_HANDLE_INIT(struct iv_handle *);
void iv_handle_register(struct iv_handle *);
void iv_handle_unregister(struct iv_handle *);
int iv_handle_registered(const struct iv_handle *);
void iv_handle_set_handler(struct iv_handle *, void (*)(void *));
#endif


/*
 * Task handling.
 */
struct iv_task {
	void	*cookie;
	void	(*handler)(void *);
	void	*pad[6];
};

void IV_TASK_INIT(struct iv_task *);
void iv_task_register(struct iv_task *);
void iv_task_unregister(struct iv_task *);
int iv_task_registered(const struct iv_task *);


/*
 * Timer handling.
 */
struct iv_timer {
	struct timespec	expires;
	void		*cookie;
	void		(*handler)(void *);
	void		*pad[4];
};

void IV_TIMER_INIT(struct iv_timer *);
void iv_timer_register(struct iv_timer *);
void iv_timer_unregister(struct iv_timer *);
int iv_timer_registered(const struct iv_timer *);


#ifdef __cplusplus
}
#endif


#endif
