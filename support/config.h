/* config.h.  Generated from config.h.in by configure.  */
/* config.h.in.  Generated from configure.ac by autoheader.  */

/* Define to 1 if you have the `clock_gettime' function. */
#define HAVE_CLOCK_GETTIME 1

/* Define to 1 if system has CLOCK_MONOTONIC */
#define HAVE_CLOCK_MONOTONIC 1

/* Define to 1 if system has CLOCK_MONOTONIC_FAST */
/* #undef HAVE_CLOCK_MONOTONIC_FAST */

/* Define to 1 if system has CLOCK_REALTIME */
#define HAVE_CLOCK_REALTIME 1

/* Define to 1 if you have the <dlfcn.h> header file. */
#define HAVE_DLFCN_H 1

/* Define to 1 if you have the `epoll_create' function. */
#define HAVE_EPOLL_CREATE 1

/* Define to 1 if you have the `epoll_create1' function. */
#define HAVE_EPOLL_CREATE1 1

/* Define to 1 if you have the `epoll_pwait2' function. */
#define HAVE_EPOLL_PWAIT2 1

/* Define to 1 if you have the `eventfd' function. */
#define HAVE_EVENTFD 1

/* Define to 1 if you have the `gettid' function. */
#define HAVE_GETTID 1

/* Define to 1 if you have the `inotify_init' function. */
#define HAVE_INOTIFY_INIT 1

/* Define to 1 if you have the <inttypes.h> header file. */
#define HAVE_INTTYPES_H 1

/* Define to 1 if you have the `kqueue' function. */
/* #undef HAVE_KQUEUE */

/* Define to 1 if you have the `c_nonshared' library. */
#define HAVE_LIBC_NONSHARED 1

/* Define to 1 if you have the `pthread_nonshared' library
   (-lpthread_nonshared). */
#define HAVE_LIBPTHREAD_NONSHARED 1

/* Define to 1 if you have the `lwp_gettid' function. */
/* #undef HAVE_LWP_GETTID */

/* Define to 1 if you have the `pipe2' function. */
#define HAVE_PIPE2 1

/* Define to 1 if you have the `port_create' function. */
/* #undef HAVE_PORT_CREATE */

/* Define to 1 if you have the `ppoll' function. */
#define HAVE_PPOLL 1

/* Define to 1 if system has a working pragma weak */
#define HAVE_PRAGMA_WEAK 1

/* Define to 1 if you have the <process.h> header file. */
/* #undef HAVE_PROCESS_H */

/* Define to 1 if you have the pthread_spin_trylock function */
#define HAVE_PTHREAD_SPIN_TRYLOCK 1

/* Define to 1 if you have the `splice' function. */
#define HAVE_SPLICE 1

/* Define to 1 if you have the <stdint.h> header file. */
#define HAVE_STDINT_H 1

/* Define to 1 if you have the <stdio.h> header file. */
#define HAVE_STDIO_H 1

/* Define to 1 if you have the <stdlib.h> header file. */
#define HAVE_STDLIB_H 1

/* Define to 1 if you have the <strings.h> header file. */
#define HAVE_STRINGS_H 1

/* Define to 1 if you have the <string.h> header file. */
#define HAVE_STRING_H 1

/* Define to 1 if you have the <sys/devpoll.h> header file. */
/* #undef HAVE_SYS_DEVPOLL_H */

/* Define to 1 if you have the <sys/eventfd.h> header file. */
#define HAVE_SYS_EVENTFD_H 1

/* Define to 1 if you have the <sys/stat.h> header file. */
#define HAVE_SYS_STAT_H 1

/* Define to 1 if you have the <sys/syscall.h> header file. */
#define HAVE_SYS_SYSCALL_H 1

/* Define to 1 if you have the <sys/thr.h> header file. */
/* #undef HAVE_SYS_THR_H */

/* Define to 1 if you have the <sys/types.h> header file. */
#define HAVE_SYS_TYPES_H 1

/* Define to 1 if you have the <thread.h> header file. */
/* #undef HAVE_THREAD_H */

/* Define to 1 if you have the `thr_self' function. */
/* #undef HAVE_THR_SELF */

/* Define to 1 if you have the `timerfd_create' function. */
#define HAVE_TIMERFD_CREATE 1

/* Define to 1 if you have the <unistd.h> header file. */
#define HAVE_UNISTD_H 1

/* Define to 1 if you have the `wait4' function. */
#define HAVE_WAIT4 1

/* Define to the sub-directory where libtool stores uninstalled libraries. */
#define LT_OBJDIR ".libs/"

/* Name of package */
#define PACKAGE "ivykis"

/* Define to the address where bug reports for this package should be sent. */
#define PACKAGE_BUGREPORT "libivykis-discuss@lists.sourceforge.net"

/* Define to the full name of this package. */
#define PACKAGE_NAME "ivykis"

/* Define to the full name and version of this package. */
#define PACKAGE_STRING "ivykis 0.43.2"

/* Define to the one symbol short name of this package. */
#define PACKAGE_TARNAME "ivykis"

/* Define to the home page for this package. */
#define PACKAGE_URL ""

/* Define to the version of this package. */
#define PACKAGE_VERSION "0.43.2"

/* Define to 1 if all of the C90 standard headers exist (not just the ones
   required in a freestanding environment). This macro is provided for
   backward compatibility; new code need not use it. */
#define STDC_HEADERS 1

/* Version number of package */
#define VERSION "0.43.2"
