#!/usr/bin/env python3
"""
verif.py — driver for the contract-based verification of /repo (ivykis) with
CBMC code contracts.  See DESIGN.md section 2.

  verif.py check <Cxx> [--tier quick|thorough] [--jobs N] [--only unit] [--keep]
  verif.py replay <replay.json>
  verif.py list [<Cxx>]
  verif.py selftest

Exit status of `check`:
  0  every obligation of every unit discharged (known findings are printed as
     KNOWN-FINDING lines and do not count)
  1  a named obligation that belongs to the property failed -> VIOLATION line
  2  no violation, but some unit was inconclusive (time-out, memory, tool or
     extraction error, vacuity guard)
"""
import sys
import os
import re
import json
import time
import shutil
import hashlib
import tempfile
import argparse
import subprocess
import threading
from concurrent.futures import ThreadPoolExecutor

VERIF = os.path.dirname(os.path.abspath(__file__))
sys.path.insert(0, os.path.join(VERIF, 'tools'))
import loopinject
import cgen

REPO = os.environ.get('VERIF_REPO', '/repo')
GUARD = 'IVYKIS_VERIF'

CBMC_CHECKS = ['--bounds-check', '--pointer-check', '--pointer-overflow-check',
               '--signed-overflow-check', '--div-by-zero-check',
               '--undefined-shift-check', '--pointer-primitive-check']

MEM_BUDGET_GB = 44
_mem_lock = threading.Condition()
_mem_used = [0]


def sh(cmd, timeout=None, mem_gb=None, cwd=None, env=None):
    """Run cmd (list) -> (rc, stdout, stderr, seconds).  rc -9 on timeout."""
    t0 = time.time()
    pre = None
    if mem_gb:
        import resource

        def pre():
            lim = int(mem_gb * (1 << 30))
            resource.setrlimit(resource.RLIMIT_AS, (lim, lim))
            os.setsid()
    try:
        p = subprocess.Popen(cmd, stdout=subprocess.PIPE, stderr=subprocess.PIPE,
                             cwd=cwd, env=env, preexec_fn=pre, text=True, errors='replace')
        try:
            out, err = p.communicate(timeout=timeout)
        except subprocess.TimeoutExpired:
            try:
                os.killpg(p.pid, 9) if mem_gb else p.kill()
            except Exception:
                p.kill()
            out, err = p.communicate()
            return -9, out, err, time.time() - t0
        return p.returncode, out, err, time.time() - t0
    except OSError as e:
        return -1, '', str(e), time.time() - t0


# --------------------------------------------------------------------------
# units
# --------------------------------------------------------------------------

def load_units():
    units = []
    d = os.path.join(VERIF, 'units')
    for fn in sorted(os.listdir(d)):
        if fn.endswith('.json'):
            for u in json.load(open(os.path.join(d, fn))):
                u.setdefault('tier', 'quick')
                u.setdefault('kind', 'proved')
                u.setdefault('cfg', 'default')
                u.setdefault('backend', 'sat')
                u.setdefault('timeout', 300)
                u.setdefault('mem_gb', 6)
                u.setdefault('replace', [])
                u.setdefault('replace_calls', [])
                u.setdefault('loops', [])
                u.setdefault('defines', [])
                u.setdefault('cbmc_flags', [])
                u.setdefault('functions', [])
                u.setdefault('trusted', [])
                u.setdefault('min_props', 1)
                u.setdefault('replay', 'auto')
                u.setdefault('enforce', None)
                u['_file'] = fn
                units.append(u)
    names = [u['name'] for u in units]
    dup = set(n for n in names if names.count(n) > 1)
    if dup:
        raise SystemExit('duplicate unit names: %s' % dup)
    return units


def select(units, pid, tier, only=None):
    sel = []
    for u in units:
        if pid not in u['props']:
            continue
        if tier == 'quick' and u['tier'] != 'quick':
            continue
        if u.get('tier_only') and u['tier_only'] != tier:
            continue
        # expensive units run in the quick tier only for the properties they matter most to
        if tier == 'quick' and u.get('quick_for') and pid not in u['quick_for']:
            continue
        if only and u['name'] not in only:
            continue
        sel.append(u)
    return sel


# --------------------------------------------------------------------------
# building one unit
# --------------------------------------------------------------------------

def repo_file(rel):
    p = os.path.join(REPO, rel)
    if os.path.exists(p):
        return p
    return None


def make_cfg(tmp, cfg):
    """Write the config.h variant for this unit into tmp/cfg and return -I dirs."""
    cdir = os.path.join(tmp, 'cfg')
    os.makedirs(cdir, exist_ok=True)
    src = repo_file('config.h') or os.path.join(VERIF, 'support', 'config.h')
    txt = open(src).read()
    if cfg == 'poll':
        # DESIGN 2.1 / A.8: make `poll` the only member of st->u
        txt = '\n'.join(l for l in txt.split('\n')
                        if not re.search(r'#define HAVE_(EPOLL_CREATE1?|EPOLL_PWAIT2|TIMERFD_CREATE)\b', l))
    elif cfg == 'noeventfd':
        txt = '\n'.join(l for l in txt.split('\n')
                        if not re.search(r'#define HAVE_(EVENTFD|SYS_EVENTFD_H)\b', l))
    elif cfg != 'default':
        raise RuntimeError('unknown cfg %s' % cfg)
    open(os.path.join(cdir, 'config.h'), 'w').write(txt)
    incs = [cdir]
    if not repo_file('src/include/iv.h'):
        # generated header missing from the working tree: use the pinned copy
        shutil.copy(os.path.join(VERIF, 'support', 'iv.h'), os.path.join(cdir, 'iv.h'))
    return incs


def include_flags(tmp, u):
    incs = []
    if u['loops'] or u.get('copy_src') or u.get('patch_src'):
        incs.append(os.path.join(tmp, 'src'))
    incs += make_cfg(tmp, u['cfg'])
    incs += [os.path.join(VERIF, 'include'), VERIF, REPO,
             os.path.join(REPO, 'src'), os.path.join(REPO, 'src', 'include')]
    return ['-I' + i for i in incs]


def build_unit(u, tmp, log):
    """goto-cc + goto-instrument.  Returns (path to goto binary, None) or (None, reason)."""
    flags = ['-D_GNU_SOURCE', '-D' + GUARD] + ['-D' + d for d in u['defines']]
    if u['loops']:
        sdir = os.path.join(tmp, 'src')
        os.makedirs(sdir, exist_ok=True)
        byfile = {}
        for sp in u['loops']:
            byfile.setdefault(sp['file'], []).append(sp)
        for f, specs in byfile.items():
            p = repo_file('src/' + f)
            if not p:
                return None, 'source file src/%s missing' % f
            try:
                new = loopinject.inject(open(p).read(), specs)
            except loopinject.InjectError as e:
                return None, 'loop-contract injection: %s' % e
            open(os.path.join(sdir, f), 'w').write(new)
    # mechanical header/source variants (DESIGN 2.1): verbatim copies plus regex patches that
    # must fire exactly the stated number of times, else the unit is inconclusive
    if u.get('copy_src') or u.get('patch_src'):
        sdir = os.path.join(tmp, 'src')
        os.makedirs(sdir, exist_ok=True)
        for f in u.get('copy_src', []):
            pth = repo_file('src/' + f)
            if not pth:
                return None, 'source file src/%s missing' % f
            if not os.path.exists(os.path.join(sdir, f)):
                shutil.copy(pth, os.path.join(sdir, f))
        for ps in u.get('patch_src', []):
            pth = os.path.join(sdir, ps['file']) if os.path.exists(os.path.join(sdir, ps['file'])) \
                else repo_file('src/' + ps['file'])
            if not pth:
                return None, 'source file src/%s missing' % ps['file']
            txt = open(pth).read()
            new_txt, cnt = re.subn(ps['pattern'], ps['replacement'], txt)
            if cnt != ps.get('count', 1):
                return None, 'source patch %s on %s fired %d times (expected %d)' % (
                    ps.get('name', ps['pattern']), ps['file'], cnt, ps.get('count', 1))
            open(os.path.join(sdir, ps['file']), 'w').write(new_txt)
    flags += include_flags(tmp, u)
    src = os.path.join(VERIF, u['src'])
    gb = os.path.join(tmp, 'u.gb')
    cmd = ['goto-cc'] + flags + ['--function', u['entry'], src, '-o', gb]
    log['cmds'].append(' '.join(cmd))
    rc, out, err, dt = sh(cmd, timeout=120)
    log['t_gotocc'] = dt
    if rc != 0:
        return None, 'goto-cc failed: ' + (err + out)[-1500:]
    cur = gb
    if u.get('restrict_fp'):
        # each listed indirect call may only target the listed functions; goto-instrument
        # adds an assertion that the pointer is one of them (checked like any obligation)
        nxt = os.path.join(tmp, 'u.f.gb')
        cmd = ['goto-instrument']
        for r in u['restrict_fp']:
            cmd += ['--restrict-function-pointer', r]
        cmd += [cur, nxt]
        log['cmds'].append(' '.join(cmd))
        rc, out, err, dt = sh(cmd, timeout=120)
        if rc != 0:
            return None, 'goto-instrument --restrict-function-pointer failed: ' + (err + out)[-1500:]
        cur = nxt
    if u['replace_calls']:
        nxt = os.path.join(tmp, 'u.r.gb')
        cmd = ['goto-instrument']
        for rcall in u['replace_calls']:
            cmd += ['--replace-calls', rcall]
        cmd += [cur, nxt]
        log['cmds'].append(' '.join(cmd))
        rc, out, err, dt = sh(cmd, timeout=120)
        if rc != 0:
            return None, 'goto-instrument --replace-calls failed: ' + (err + out)[-1500:]
        cur = nxt
    if u['enforce'] or u['replace']:
        nxt = os.path.join(tmp, 'u.i.gb')
        cmd = ['goto-instrument', '--dfcc', u['entry']]
        if u['enforce']:
            cmd += ['--enforce-contract', u['enforce']]
        for r in u['replace']:
            cmd += ['--replace-call-with-contract', r]
        if u['loops']:
            cmd += ['--apply-loop-contracts']
        cmd += [cur, nxt]
        log['cmds'].append(' '.join(cmd))
        rc, out, err, dt = sh(cmd, timeout=300, mem_gb=u['mem_gb'])
        log['t_instrument'] = dt
        if rc != 0:
            return None, 'goto-instrument --dfcc failed: ' + (err + out)[-1500:]
        cur = nxt
    elif u['loops']:
        nxt = os.path.join(tmp, 'u.i.gb')
        cmd = ['goto-instrument', '--apply-loop-contracts', cur, nxt]
        log['cmds'].append(' '.join(cmd))
        rc, out, err, dt = sh(cmd, timeout=300, mem_gb=u['mem_gb'])
        log['t_instrument'] = dt
        if rc != 0:
            return None, 'goto-instrument --apply-loop-contracts failed: ' + (err + out)[-1500:]
        cur = nxt
    return cur, None


def cbmc_cmd(u, gb):
    cmd = ['cbmc'] + [c for c in CBMC_CHECKS if c not in u.get('drop_checks', [])] + ['--json-ui', '--verbosity', '8']
    if not u.get('malloc_may_fail'):
        cmd.append('--no-malloc-may-fail')
    if u.get('unwind'):
        cmd += ['--unwind', str(u['unwind']), '--unwinding-assertions']
    for us in u.get('unwindset', []):
        cmd += ['--unwindset', us]
    if u.get('unwindset') and not u.get('unwind'):
        cmd += ['--unwinding-assertions']
    if u['backend'] == 'cvc5':
        cmd.append('--cvc5')
    elif u['backend'] == 'z3':
        cmd.append('--z3')
    elif u['backend'] == 'kissat':
        cmd += ['--external-sat-solver', 'kissat']
    cmd += u['cbmc_flags']
    cmd.append(gb)
    return cmd


TAG_RE = re.compile(r'\[((?:C\d{2,3})(?:\s*,\s*C\d{2,3})*)\]\s*([^*]*)')


def tag_of(file, line, desc):
    """Property tags of an obligation: [Cxx,...] in its description, or in a
    comment on the source line that carries the clause."""
    m = TAG_RE.search(desc or '')
    if m:
        return [t.strip() for t in m.group(1).split(',')], m.group(2).strip()
    try:
        if file and line and os.path.exists(file):
            lines = open(file, errors='replace').read().split('\n')
            ln = int(line) - 1
            # the clause may span several lines: look at its first line, then forward until ';' or next clause
            for k in range(ln, min(ln + 25, len(lines))):
                m = TAG_RE.search(lines[k])
                if m:
                    return [t.strip() for t in m.group(1).split(',')], m.group(2).strip()
                if k > ln and re.match(r'\s*(__CPROVER_(requires|ensures|assigns|frees)\b|;|\{|\})', lines[k]):
                    break
    except Exception:
        pass
    return None, ''


def parse_cbmc(out):
    try:
        data = json.loads(out)
    except Exception:
        # truncated output (killed): try to salvage
        return None, [], 'unparsable cbmc output'
    results = None
    msgs = []
    for e in data:
        if isinstance(e, dict):
            if 'result' in e:
                results = e['result']
            elif 'messageText' in e:
                msgs.append(e['messageText'])
    return results, msgs, None


def run_unit(u, tier, keep=False):
    """Run one proof unit.  Returns a record."""
    rec = dict(name=u['name'], props=u['props'], kind=u['kind'], bound=u.get('bound'),
               backend=u['backend'], mode=('D' if (u['enforce'] or u['replace']) else 'S'),
               functions=u['functions'], status='inconclusive', reason=None,
               obligations=[], n_props=0, n_success=0, failures=[], cmds=[],
               t_gotocc=0.0, t_instrument=0.0, t_cbmc=0.0, t_solver=0.0, canary=None,
               enforce=u['enforce'], replace=u['replace'])
    need = u['mem_gb']
    with _mem_lock:
        while _mem_used[0] + need > MEM_BUDGET_GB and _mem_used[0] > 0:
            _mem_lock.wait()
        _mem_used[0] += need
    tmp = tempfile.mkdtemp(prefix='verif_%s_' % u['name'])
    try:
        gb, why = build_unit(u, tmp, rec)
        if gb is None:
            rec['reason'] = why
            return rec
        cmd = cbmc_cmd(u, gb)
        rec['cmds'].append(' '.join(cmd))
        rc, out, err, dt = sh(cmd, timeout=u['timeout'] * (3 if tier == 'thorough' else 1),
                              mem_gb=u['mem_gb'])
        rec['t_cbmc'] = dt
        if rc == -9 and u['backend'] == 'sat' and not u.get('no_retry'):
            # slow queries are the unstable ones: give the other installed SAT solver one try
            u2 = dict(u)
            u2['backend'] = 'kissat'
            cmd = cbmc_cmd(u2, gb)
            rec['cmds'].append(' '.join(cmd))
            rc, out, err, dt2 = sh(cmd, timeout=u['timeout'] * (3 if tier == 'thorough' else 1), mem_gb=u['mem_gb'])
            rec['t_cbmc'] += dt2
            rec['backend'] = 'sat, then kissat after a time-out'
            dt = dt2
        if rc == -9:
            rec['reason'] = 'cbmc timeout after %ds' % int(dt)
            return rec
        results, msgs, perr = parse_cbmc(out)
        for m in msgs:
            mm = re.search(r'Runtime decision procedure:\s*([0-9.eE+-]+)s', m)
            if mm:
                rec['t_solver'] += float(mm.group(1))
            ms = re.search(r'Runtime Symex:\s*([0-9.eE+-]+)s', m)
            if ms:
                rec['t_symex'] = rec.get('t_symex', 0.0) + float(ms.group(1))
        if results is not None and (rc == 6 or any('out of memory' in m.lower() for m in msgs)):
            # cbmc reports undecided properties as failed when the solver dies: never a violation
            rec['reason'] = 'cbmc ran out of memory (rc=%s)' % rc
            return rec
        if results is None:
            tail = ' | '.join(msgs[-4:]) if msgs else (err or out)[-600:]
            rec['reason'] = 'cbmc gave no result (rc=%s): %s' % (rc, tail)
            return rec
        canary_seen = False
        ignoring = any('ignoring' in m for m in msgs)
        unwind_fail = []
        for r in results:
            sl = r.get('sourceLocation', {}) or {}
            desc = r.get('description', '')
            pid = r.get('property', '')
            st = r.get('status')
            if desc == 'canary':
                # other entry points of the same file are compiled in but unreachable
                if sl.get('function') == u['entry']:
                    canary_seen = True
                    rec['canary'] = st
                continue
            rec['n_props'] += 1
            ob = dict(id=pid, description=desc, status=st, file=sl.get('file'),
                      line=sl.get('line'), function=sl.get('function'),
                      cls=sl.get('propertyClass'))
            if st == 'SUCCESS':
                rec['n_success'] += 1
            elif sl.get('propertyClass') == 'unwind' or 'unwinding assertion' in desc:
                unwind_fail.append(ob)
            else:
                tags, text = tag_of(sl.get('file'), sl.get('line'), desc)
                ob['tags'] = tags
                ob['text'] = text
                ob['trace'] = r.get('trace')
                rec['failures'].append(ob)
            rec['obligations'].append({k: ob[k] for k in
                                       ('id', 'description', 'status', 'file', 'line', 'cls')})
        if rec['failures']:
            rec['status'] = 'violated'
            return rec
        if unwind_fail:
            rec['reason'] = 'unwinding assertion failed (bound too small): %s' % unwind_fail[0]['id']
            return rec
        if not canary_seen or rec['canary'] != 'FAILURE':
            rec['reason'] = 'vacuity guard: canary %s' % (rec['canary'] or 'missing')
            return rec
        if rec['n_props'] < u['min_props']:
            rec['reason'] = 'vacuity guard: %d obligations < expected minimum %d' % (
                rec['n_props'], u['min_props'])
            return rec
        if u['loops']:
            have = sum(1 for o in rec['obligations'] if 'loop_invariant' in o['id']
                       or 'loop invariant' in o['description'])
            if have == 0:
                rec['reason'] = 'vacuity guard: loop contract was dropped (no loop-invariant obligations)'
                return rec
        if ignoring:
            rec['reason'] = 'solver ignored a quantifier'
            return rec
        rec['status'] = 'discharged'
        return rec
    finally:
        with _mem_lock:
            _mem_used[0] -= need
            _mem_lock.notify_all()
        if keep:
            rec['tmp'] = tmp
        else:
            shutil.rmtree(tmp, ignore_errors=True)


# --------------------------------------------------------------------------
# replay
# --------------------------------------------------------------------------

def verif_in_from_trace(trace):
    """Final values of verif_in.* as a list of (lhs, literal)."""
    vals = {}
    order = []
    for step in trace or []:
        if step.get('stepType') != 'assignment':
            continue
        lhs = step.get('lhs', '')
        if lhs == 'verif_in' or lhs.startswith('verif_in.') or lhs.startswith('verif_in['):
            for suf, lit in cgen.c_value(step.get('value')):
                k = re.sub(r'\[(\d+)[a-zA-Z]+\]', r'[\1]', lhs + suf)
                if '$' in k:
                    continue        # padding members
                if k not in vals:
                    order.append(k)
                vals[k] = lit
    return [(k, vals[k]) for k in order]


def trace_excerpt(trace, limit=60):
    out = []
    for step in trace or []:
        if step.get('hidden'):
            continue
        t = step.get('stepType')
        sl = step.get('sourceLocation', {}) or {}
        f = sl.get('file', '')
        if f.startswith('<'):
            continue
        loc = '%s:%s' % (os.path.basename(f), sl.get('line'))
        if t == 'assignment':
            v = step.get('value', {})
            d = v.get('data') if isinstance(v, dict) else None
            if d is None:
                continue
            out.append('%s %s = %s' % (loc, step.get('lhs'), d))
        elif t == 'function-call':
            out.append('%s call %s' % (loc, (step.get('function') or {}).get('displayName')))
        elif t == 'failure':
            out.append('%s FAILURE %s' % (loc, step.get('reason')))
    return out[-limit:]


def wrap_list(u):
    """Names wrapped with STUB(name) in the unit and the stub headers it includes."""
    names = set()
    seen = set()

    def scan(path):
        if path in seen or not os.path.exists(path):
            return
        seen.add(path)
        txt = open(path, errors='replace').read()
        for m in re.finditer(r'\bSTUB\((\w+)\)', txt):
            names.add(m.group(1))
        for m in re.finditer(r'#include\s+"((?:stubs|contracts|harness)/[^"]+)"', txt):
            scan(os.path.join(VERIF, m.group(1)))
    scan(os.path.join(VERIF, u['src']))
    return sorted(names)


def native_replay(u, values, tmp):
    """Compile the unit natively against the real code and run it on the
    counterexample.  Returns (reproduced: bool|None, text)."""
    if u['replay'] == 'none':
        return None, 'unit is marked not natively replayable: ' + str(u.get('replay_why', ''))
    if u['replace_calls'] and not u.get('native_ok'):
        return None, ('calls are redirected to stubs with goto-instrument --replace-calls (%s), which the native '
                      'build cannot reproduce' % ', '.join(u['replace_calls']))
    if u['replace']:
        return None, ('callees are replaced by their contracts in this unit (%s); a contract has no '
                      'native execution, so the counterexample cannot be run' % ', '.join(u['replace']))
    uu = dict(u)
    uu['loops'] = []          # native build uses the unmodified source file
    flags = ['-D_GNU_SOURCE', '-D' + GUARD, '-DVERIF_NATIVE'] + ['-D' + d for d in u['defines']] + \
        include_flags(tmp, uu) + ['-I' + os.path.join(VERIF, 'harness')]
    rc, text, err, dt = sh(['clang', '-E'] + flags + [os.path.join(VERIF, u['src'])], timeout=60)
    if rc != 0:
        return None, 'native preprocessing failed:\n' + err[-2000:]
    fn = ct = None
    if u['enforce']:
        fn, ct = u['enforce'].split('/')
    try:
        prog = cgen.generate(text, u['entry'], fn, ct, values)
    except cgen.Unsupported as e:
        return None, 'native replay unsupported: %s' % e
    src = os.path.join(tmp, 'native.c')
    open(src, 'w').write(prog)
    exe = os.path.join(tmp, 'native')
    cmd = ['clang', '-g', '-O0', '-w', '-fsanitize=address,undefined',
           '-fno-sanitize=null',     # iv_container_of() computes offsets from a null pointer
           '-fno-sanitize-recover=undefined', '-fno-omit-frame-pointer', src, '-o', exe]
    # wrap exactly the stubs that this unit defines (STUB(x) -> __wrap_x)
    for w in sorted(set(re.findall(r'\b__wrap_(\w+)\s*\(', prog))):
        cmd.append('-Wl,--wrap=' + w)
    cmd.append('-lpthread')
    rc, out, err, dt = sh(cmd, timeout=120)
    if rc != 0 and 'undefined reference to' in err:
        # functions of other translation units that this unit never models: give them
        # bodies that stop the replay if they are ever reached
        syms = sorted(set(re.findall(r"undefined reference to `(\w+)'", err)))
        stub = os.path.join(tmp, 'undef.c')
        with open(stub, 'w') as f:
            f.write('#include <stdio.h>\n#include <stdlib.h>\n')
            for sname in syms:
                f.write('void %s(void) { fprintf(stderr, "REPLAY: unmodelled external %s reached\\n"); exit(78); }\n'
                        % (sname, sname))
        cmd2 = cmd[:cmd.index(src) + 1] + [stub] + cmd[cmd.index(src) + 1:]
        rc, out, err, dt = sh(cmd2, timeout=120)
    if rc != 0:
        return None, 'native build failed:\n' + (err + out)[-3000:]
    env = dict(os.environ)
    env['ASAN_OPTIONS'] = 'detect_leaks=0:allow_user_segv_handler=1:abort_on_error=0'
    env['UBSAN_OPTIONS'] = 'print_stacktrace=1'
    rc, out, err, dt = sh([exe], timeout=30, env=env)
    txt = (out + err)[-6000:]
    if rc == 77:
        return False, 'input outside the contract natively (assumption false)\n' + txt
    if rc == 78:
        return False, 'native run reached a function of another translation unit that the unit does not model\n' + txt
    if rc == 0:
        return False, 'native run did not fail\n' + txt
    return True, 'native run failed (exit %s)\n%s' % (rc, txt)


def write_replay(pid, u, rec, ob, tier):
    os.makedirs(os.path.join(VERIF, 'replays'), exist_ok=True)
    safe = re.sub(r'[^A-Za-z0-9_.-]', '_', ob['id'])
    path = os.path.join(VERIF, 'replays', '%s-%s-%s.json' % (pid, u['name'], safe))
    values = verif_in_from_trace(ob.get('trace'))
    if not values:
        # cbmc attaches the full trace only to some properties: borrow the input of another
        # failed obligation of the same unit (same program, some failing input)
        for o2 in rec['failures']:
            values = verif_in_from_trace(o2.get('trace'))
            if values:
                break
    tmp = tempfile.mkdtemp(prefix='verif_replay_')
    try:
        reproduced, text = native_replay(u, values, tmp)
    except Exception as e:           # never let the replay machinery hide a violation
        reproduced, text = None, 'replay machinery error: %r' % e
    finally:
        shutil.rmtree(tmp, ignore_errors=True)
    doc = dict(property=pid, unit=u['name'], obligation=ob['id'],
               description=ob['description'], clause_note=ob.get('text'),
               source_location='%s:%s' % (ob.get('file'), ob.get('line')),
               function=ob.get('function'), tier=tier,
               functions_under_contract=u['functions'],
               verif_in=dict(values), native_reproduced=reproduced, native_output=text,
               verifier_trace=trace_excerpt(ob.get('trace')),
               commands=rec['cmds'],
               replay_cmd='python3 %s/verif.py replay %s' % (VERIF, path))
    json.dump(doc, open(path, 'w'), indent=1)
    return path, reproduced


# --------------------------------------------------------------------------
# known findings
# --------------------------------------------------------------------------

def load_findings():
    res = []
    p = os.path.join(VERIF, 'known_findings.txt')
    if not os.path.exists(p):
        return res
    for line in open(p):
        line = line.strip()
        if not line.startswith('finding:'):
            continue
        kv = dict(re.findall(r'(\w+)=(\S+)', line))
        kv['_line'] = line
        res.append(kv)
    return res


def is_known(findings, pid, unit, ob):
    for f in findings:
        if f.get('property') == pid and f.get('unit') == unit and f.get('obligation') == ob['id']:
            return f
    return None


# --------------------------------------------------------------------------
# check
# --------------------------------------------------------------------------

def check(pid, tier, jobs, only=None, keep=False, quiet=False):
    t0 = time.time()
    units = load_units()
    sel = select(units, pid, tier, only)
    findings = load_findings()
    if not sel:
        print('no units for %s' % pid)
        return 2
    # stale replay files of this property are removed so that replays/ shows this run only
    rd = os.path.join(VERIF, 'replays')
    if os.path.isdir(rd):
        for fn in os.listdir(rd):
            if fn.startswith(pid + '-'):
                os.unlink(os.path.join(rd, fn))
    sel.sort(key=lambda u: -u['timeout'])
    with ThreadPoolExecutor(max_workers=jobs) as ex:
        recs = list(ex.map(lambda u: run_unit(u, tier, keep), sel))
    by_name = {u['name']: u for u in sel}
    violations = []
    known = []
    other_fail = []
    inconclusive = []
    for rec in recs:
        u = by_name[rec['name']]
        if rec['status'] == 'inconclusive':
            inconclusive.append(rec)
        for ob in rec['failures']:
            tags = ob.get('tags')
            if tags is None:
                # untagged: frame (assigns) failures belong to the unit's primary property,
                # memory-safety and other generic checks to the primary property and to C18
                tags = [rec['props'][0]]
                if ob.get('cls') != 'assigns' and 'C18' in rec['props']:
                    tags.append('C18')
                if 'iv_fatal unreachable' in (ob.get('description') or ''):
                    # the process aborts on an input the contract admits: every property served by the unit is broken
                    tags = list(rec['props'])
                ob['tags'] = tags
            mine = pid in tags
            if not mine:
                other_fail.append((rec, ob))
                continue
            f = is_known(findings, pid, rec['name'], ob)
            if f:
                known.append((rec, ob, f))
                continue
            violations.append((rec, ob))
    # ---- report
    for rec, ob, f in known:
        print('KNOWN-FINDING: property=%s unit=%s obligation=%s %s' % (
            pid, rec['name'], ob['id'], ob['description']))
    def vkey(v):
        f = str(v[1].get('file') or '')
        if v[1].get('text'):
            return 0        # explicitly tagged clause of this property
        if f.startswith('<'):
            return 3
        if f.startswith(REPO):
            return 1
        return 2
    violations.sort(key=vkey)
    seen_units = set()
    for rec, ob in violations:
        u = by_name[rec['name']]
        # one replay per (unit, obligation); cap the number per unit
        key = rec['name']
        cnt = sum(1 for k in seen_units if k[0] == key)
        if cnt >= 3:
            continue
        seen_units.add((key, ob['id']))
        path, reproduced = write_replay(pid, u, rec, ob, tier)
        suffix = '' if reproduced else ' no-failing-input-found'
        print('  failed obligation: unit=%s %s: %s %s(%s:%s)' % (
            rec['name'], ob['id'], ob['description'],
            ('[' + ob.get('text', '') + '] ') if ob.get('text') else '',
            os.path.basename(ob.get('file') or ''), ob.get('line')))
        print('VIOLATION property=%s replay=%s%s' % (pid, path, suffix))
    if len(other_fail) > 8:
        print('  note: %d more failed obligations belong to other properties' % (len(other_fail) - 8))
    for rec, ob in other_fail[:8]:
        print('  note: unit=%s obligation %s failed but belongs to %s, not %s' % (
            rec['name'], ob['id'], ','.join(ob.get('tags') or []), pid))
    for rec in inconclusive:
        print('  inconclusive: unit=%s: %s' % (rec['name'], (rec['reason'] or '')[:800]))
    write_evidence(pid, tier, sel, recs, violations, known, inconclusive, time.time() - t0)
    nd = sum(1 for r in recs if r['status'] == 'discharged')
    print('%s tier=%s units=%d discharged=%d violated=%d inconclusive=%d wall=%.1fs' % (
        pid, tier, len(recs), nd, sum(1 for r in recs if r['status'] == 'violated'),
        len(inconclusive), time.time() - t0))
    if violations:
        return 1
    if inconclusive:
        return 2
    return 0


def tool_versions():
    rc, out, err, dt = sh(['cbmc', '--version'])
    return 'cbmc ' + out.strip()


def write_evidence(pid, tier, sel, recs, violations, known, inconclusive, wall):
    by_name = {u['name']: u for u in sel}
    proved = [r for r in recs if r['kind'] == 'proved']
    bounded = [r for r in recs if r['kind'] != 'proved']
    ob_total = sum(r['n_props'] for r in proved)
    ob_ok = sum(r['n_success'] for r in proved)
    b_total = sum(r['n_props'] for r in bounded)
    b_ok = sum(r['n_success'] for r in bounded)
    funcs = sorted(set(f for r in proved for f in r['functions']))
    bfuncs = sorted(set(f for r in bounded for f in r['functions']) - set(funcs))
    trusted = []
    for u in sel:
        for t in u['trusted']:
            if t not in trusted:
                trusted.append(t)
    common = json.load(open(os.path.join(VERIF, 'trusted_common.json'))) \
        if os.path.exists(os.path.join(VERIF, 'trusted_common.json')) else []
    samples = []
    for r in recs:
        # the contract-level obligations (post/preconditions, frame, assertions of the unit), not cbmc's generic ones
        prio = {'postcondition': 0, 'precondition': 1, 'assertion': 2, 'assigns': 3}
        picked = [o for o in r['obligations']
                  if o.get('cls') in prio
                  and o.get('file') and not str(o.get('file')).startswith('<')
                  and not (o.get('cls') == 'assigns' and '/harness/' in str(o.get('file')))]
        picked.sort(key=lambda o: prio[o['cls']])
        for o in picked[:4]:
            samples.append(dict(unit=r['name'], obligation=o['id'], description=o['description'],
                                status=o['status'], where='%s:%s' % (os.path.basename(o['file'] or ''), o['line'])))
    nontrivial = set()
    for r in recs:
        for o in r['obligations']:
            f = str(o.get('file') or '')
            if f and not f.startswith('<'):
                nontrivial.add((r['name'], o['id']))
    unit_rows = []
    for r in recs:
        unit_rows.append(dict(
            unit=r['name'], functions=r['functions'], kind=r['kind'], bound=r['bound'],
            mode=('goto-instrument --dfcc contract instrumentation' if r['mode'] == 'D'
                  else 'plain harness with stub contracts (Mode S)'),
            enforce=r['enforce'], replaced_callee_contracts=r['replace'],
            backend=r['backend'], status=r['status'], reason=r['reason'],
            obligations=r['n_props'], discharged=r['n_success'], canary=r['canary'],
            goto_cc_s=round(r['t_gotocc'], 2), instrument_s=round(r['t_instrument'], 2),
            cbmc_s=round(r['t_cbmc'], 2), symex_s=round(r.get('t_symex', 0.0), 3), solver_s=round(r['t_solver'], 3)))
    has_proved = len(proved) > 0
    level = 'proof' if has_proved else 'model_checking'
    cov = dict(
        obligations=ob_total, discharged=ob_ok,
        checker_cmd='python3 verif.py check %s --tier %s  (per unit: goto-cc -> goto-instrument --dfcc '
                    '--enforce-contract/--replace-call-with-contract [--apply-loop-contracts] -> cbmc %s)'
                    % (pid, tier, ' '.join(CBMC_CHECKS)),
        trusted_base=trusted + common,
        evaluations=ob_total + b_total,
        distinct_nontrivial=len(nontrivial),
        rule='one evaluation = one CBMC verification condition (contract clause, frame check, memory-safety '
             'check, stub assertion) decided for all inputs of its unit; non-trivial = located in the real '
             'source or in the contract/harness text (CBMC built-in library conditions excluded); the canary '
             'of each unit is not counted',
        samples=samples[:40] or [dict(note='no contract-level obligations recorded')],
        functions_under_contract=funcs,
        functions_bounded_only=bfuncs,
        bounded_obligations=b_total, bounded_discharged=b_ok,
        units=unit_rows,
        solver_seconds=round(sum(r['t_solver'] for r in recs), 3),
        cbmc_seconds=round(sum(r['t_cbmc'] for r in recs), 2),
        inconclusive=[dict(unit=r['name'], reason=r['reason']) for r in inconclusive],
        known_findings=[dict(unit=r['name'], obligation=o['id']) for r, o, f in known],
        tool=tool_versions(),
        repo=REPO,
    )
    ev = dict(property_id=pid, tier=tier, seed=int(os.environ.get('VERIF_SEED', '0') or 0),
              level=level, coverage=cov,
              assumptions=trusted + common,
              wall_s=round(wall, 2), violations=len(violations))
    # evidence/ describes /repo itself; runs pointed at another checkout (VERIF_REPO: scratch copies with a
    # seeded change applied) must not overwrite it
    evdir = os.path.join(VERIF, 'evidence') if not os.environ.get('VERIF_REPO') else os.path.join(
        tempfile.gettempdir(), 'verif_scratch_evidence')
    os.makedirs(evdir, exist_ok=True)
    json.dump(ev, open(os.path.join(evdir, '%s.json' % pid), 'w'), indent=1)


def calibrate(names, jobs):
    """Record min_props (vacuity guard b) = 60% of the obligations generated today (behaviour-preserving
    refactorings were seen to remove up to 7% of the generated conditions)."""
    units = load_units()
    sel = [u for u in units if (u['name'] in names) or ((not names or u['_file'][:-5] in names) and u['tier'] == 'quick')]
    for u in sel:
        u['min_props'] = 1
    with ThreadPoolExecutor(max_workers=jobs) as ex:
        recs = list(ex.map(lambda u: run_unit(u, 'quick'), sel))
    got = {r['name']: r for r in recs}
    d = os.path.join(VERIF, 'units')
    for fn in sorted(os.listdir(d)):
        if not fn.endswith('.json'):
            continue
        path = os.path.join(d, fn)
        arr = json.load(open(path))
        ch = False
        for u in arr:
            r = got.get(u['name'])
            if r and r['status'] == 'discharged':
                u['min_props'] = int(r['n_props'] * 0.6)
                ch = True
            elif r:
                print('not calibrated: %s (%s: %s)' % (u['name'], r['status'], (r['reason'] or '')[:200]))
        if ch:
            with open(path, 'w') as f:
                f.write('[\n' + ',\n'.join(' ' + json.dumps(u) for u in arr) + '\n]\n')
    return 0


def cover_unit(u):
    """cbmc --cover location on the unit: which source lines of the functions under contract are reachable."""
    tmp = tempfile.mkdtemp(prefix='verif_cov_%s_' % u['name'])
    rec = dict(cmds=[])
    try:
        gb, why = build_unit(u, tmp, rec)
        if gb is None:
            return dict(unit=u['name'], error=why)
        cmd = [c for c in cbmc_cmd(u, gb) if c not in CBMC_CHECKS and c != '--unwinding-assertions']
        cmd = cmd[:1] + ['--cover', 'location', '--no-standard-checks'] + cmd[1:]
        rc, out, err, dt = sh(cmd, timeout=u['timeout'], mem_gb=u['mem_gb'])
        try:
            data = json.loads(out)
        except Exception:
            return dict(unit=u['name'], error='no cover output (rc=%s)' % rc)
        goals = None
        for e in data:
            if isinstance(e, dict) and 'goals' in e:
                goals = e['goals']
        if goals is None:
            return dict(unit=u['name'], error='no goals')
        fns = set(f.split('(')[0] for f in u['functions'])
        tot = {}
        for g in goals:
            sl = g.get('sourceLocation') or {}
            fn = sl.get('function')
            if fn not in fns:
                continue
            t = tot.setdefault(fn, [0, 0, []])
            t[0] += 1
            if g.get('status') == 'satisfied':
                t[1] += 1
            else:
                t[2].append(sl.get('line'))
        return dict(unit=u['name'], functions={f: dict(goals=t[0], covered=t[1], uncovered_lines=sorted(set(x for x in t[2] if x))[:20]) for f, t in tot.items()})
    finally:
        shutil.rmtree(tmp, ignore_errors=True)


def cover(names, jobs):
    units = load_units()
    sel = [u for u in units if u['name'] in names or u['_file'][:-5] in names or (not names and u['tier'] == 'quick')]
    with ThreadPoolExecutor(max_workers=jobs) as ex:
        res = list(ex.map(cover_unit, sel))
    json.dump(res, open(os.path.join(VERIF, 'evidence', 'reachability.json'), 'w'), indent=1)
    for r in res:
        if 'error' in r:
            print('%-34s %s' % (r['unit'], r['error'][:100]))
            continue
        for f, d in r['functions'].items():
            flag = '' if d['covered'] == d['goals'] else '  uncovered lines: %s' % ','.join(map(str, d['uncovered_lines']))
            print('%-34s %-36s %3d/%3d%s' % (r['unit'], f, d['covered'], d['goals'], flag))
    return 0


def replay(path):
    doc = json.load(open(path))
    units = {u['name']: u for u in load_units()}
    u = units.get(doc['unit'])
    if not u:
        print('unit %s no longer exists' % doc['unit'])
        return 2
    print('property   :', doc['property'])
    print('obligation :', doc['obligation'], '-', doc['description'])
    print('location   :', doc['source_location'])
    print('verif_in   :', json.dumps(doc['verif_in']))
    tmp = tempfile.mkdtemp(prefix='verif_replay_')
    try:
        rep, text = native_replay(u, list(doc['verif_in'].items()), tmp)
    finally:
        shutil.rmtree(tmp, ignore_errors=True)
    print(text)
    if rep:
        print('REPRODUCED on the real code')
        return 1
    print('not reproduced natively (see verifier_trace in the replay file)')
    return 0


def main():
    ap = argparse.ArgumentParser()
    sub = ap.add_subparsers(dest='cmd')
    c = sub.add_parser('check')
    c.add_argument('pid')
    c.add_argument('--tier', default=os.environ.get('VERIF_TIER', 'quick'))
    c.add_argument('--jobs', type=int, default=int(os.environ.get('VERIF_JOBS', '14')))
    c.add_argument('--only', action='append')
    c.add_argument('--keep', action='store_true')
    r = sub.add_parser('replay')
    r.add_argument('path')
    l = sub.add_parser('list')
    l.add_argument('pid', nargs='?')
    k = sub.add_parser('calibrate')
    k.add_argument('names', nargs='*')
    k.add_argument('--jobs', type=int, default=14)
    cv = sub.add_parser('cover')
    cv.add_argument('names', nargs='*')
    cv.add_argument('--jobs', type=int, default=6)
    a = ap.parse_args()
    if a.cmd == 'cover':
        sys.exit(cover(a.names, a.jobs))
    if a.cmd == 'calibrate':
        sys.exit(calibrate(a.names, a.jobs))
    if a.cmd == 'check':
        tier = a.tier if a.tier in ('quick', 'thorough') else 'quick'
        sys.exit(check(a.pid, tier, a.jobs, a.only, a.keep))
    elif a.cmd == 'replay':
        sys.exit(replay(a.path))
    elif a.cmd == 'list':
        for u in load_units():
            if a.pid and a.pid not in u['props']:
                continue
            print('%-40s %-8s %-8s %s' % (u['name'], u['tier'], u['kind'], ','.join(u['props'])))
    else:
        ap.print_help()


if __name__ == '__main__':
    main()
