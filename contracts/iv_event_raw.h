/*
 * Contracts of the raw-event API (src/iv_event_raw_posix.c) as seen by its
 * callers (iv_event.c, iv_signal.c, iv_work.c ...).  The same text is
 * enforced on the real functions in harness/h_iv_event_raw.c.
 */
#ifndef VERIF_CONTRACTS_IV_EVENT_RAW_H
#define VERIF_CONTRACTS_IV_EVENT_RAW_H

extern int g_raw_registered;	/* ghost: number of registered raw events (of this unit) */
extern int g_raw_posts;		/* ghost: iv_event_raw_post calls */
extern const struct iv_event_raw *g_raw_post_last;

int iv_event_raw_register__contract(struct iv_event_raw *this)
__CPROVER_requires(verif_st->numobjs >= 0 && verif_st->numobjs < INT_MAX)
__CPROVER_assigns(verif_st->numobjs, verif_st->numfds, this->event_rfd, this->event_wfd, g_raw_registered)
__CPROVER_ensures(__CPROVER_return_value == 0 || __CPROVER_return_value == -1)
__CPROVER_ensures(__CPROVER_return_value == 0 ?
	(verif_st->numobjs == __CPROVER_old(verif_st->numobjs) + 1 && g_raw_registered == __CPROVER_old(g_raw_registered) + 1) :
	(verif_st->numobjs == __CPROVER_old(verif_st->numobjs) && g_raw_registered == __CPROVER_old(g_raw_registered)))	/* [C07] one loop object on success, nothing on failure */
;

void iv_event_raw_unregister__contract(struct iv_event_raw *this)
__CPROVER_requires(verif_st->numobjs >= 1 && g_raw_registered >= 1)
__CPROVER_assigns(verif_st->numobjs, verif_st->numfds, this->event_rfd, g_raw_registered)
__CPROVER_ensures(verif_st->numobjs == __CPROVER_old(verif_st->numobjs) - 1 && g_raw_registered == __CPROVER_old(g_raw_registered) - 1)	/* [C07] */
;

void iv_event_raw_post__contract(const struct iv_event_raw *this)
__CPROVER_assigns(g_raw_posts, g_raw_post_last, verif_errno)
__CPROVER_ensures(g_raw_posts == __CPROVER_old(g_raw_posts) + 1 && g_raw_post_last == this)
;

#endif
